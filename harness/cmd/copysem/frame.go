package main

// Part B: frame conditions.  For every case printed by TLC for
// spec/FrameConditions.tla (entry point, option combination, in-situ mode,
// element type, dimension class, and the roles that must stay unchanged) the
// driver builds admissible inputs, digests every role before and after the
// call and compares the roles named in `keep'.  The digests are logged for
// spec/FrameTrace.tla.

import (
	"encoding/json"
	"fmt"
	"math"
	"os"
	"reflect"
	"sort"
	"strings"
	"time"

	. "github.com/pbenner/autodiff"
	"github.com/pbenner/autodiff/algorithm/adam"
	"github.com/pbenner/autodiff/algorithm/backSubstitution"
	"github.com/pbenner/autodiff/algorithm/bfgs"
	"github.com/pbenner/autodiff/algorithm/blahut"
	"github.com/pbenner/autodiff/algorithm/cholesky"
	"github.com/pbenner/autodiff/algorithm/determinant"
	"github.com/pbenner/autodiff/algorithm/eigensystem"
	"github.com/pbenner/autodiff/algorithm/gaussJordan"
	"github.com/pbenner/autodiff/algorithm/givensRotation"
	"github.com/pbenner/autodiff/algorithm/gradientDescent"
	"github.com/pbenner/autodiff/algorithm/gramSchmidt"
	"github.com/pbenner/autodiff/algorithm/hessenbergReduction"
	"github.com/pbenner/autodiff/algorithm/householder"
	"github.com/pbenner/autodiff/algorithm/householderBidiagonalization"
	"github.com/pbenner/autodiff/algorithm/householderTridiagonalization"
	"github.com/pbenner/autodiff/algorithm/matrixInverse"
	"github.com/pbenner/autodiff/algorithm/msqrt"
	"github.com/pbenner/autodiff/algorithm/msqrtInv"
	"github.com/pbenner/autodiff/algorithm/newton"
	"github.com/pbenner/autodiff/algorithm/qrAlgorithm"
	"github.com/pbenner/autodiff/algorithm/rprop"
	"github.com/pbenner/autodiff/algorithm/saga"
	"github.com/pbenner/autodiff/algorithm/svd"
	"verifharness/vh"
)

type optv struct {
	O string `json:"o"`
	V bool   `json:"v"`
}

type fcase struct {
	Entry string   `json:"entry"`
	Op    string   `json:"op"`
	Mode  string   `json:"mode"`
	Elem  string   `json:"elem"`
	N     int      `json:"n"`
	Sr    string   `json:"sr"`
	Sa    string   `json:"sa"`
	Sb    string   `json:"sb"`
	Mag   string   `json:"mag"`
	Opts  []optv   `json:"opts"`
	Keep  []string `json:"keep"`
	May   []string `json:"may"`
	// pairs of roles whose share set (storage reachable from both) must be empty after the call
	Disjoint [][]string `json:"disjoint"`
}

func (c *fcase) opt(name string) bool {
	for _, o := range c.Opts {
		if o.O == name {
			return o.V
		}
	}
	return false
}

func (c *fcase) optString() string {
	s := []string{}
	for _, o := range c.Opts {
		if o.V {
			s = append(s, o.O)
		}
	}
	return strings.Join(s, "+")
}

/* ---------------------------------------------------------------- digests */

func scalarDigest(sb *strings.Builder, s ConstScalar) {
	if s == nil {
		sb.WriteString("nil;")
		return
	}
	fmt.Fprintf(sb, "%x/%d/%d", math.Float64bits(s.GetFloat64()), s.GetOrder(), s.GetN())
	if s.GetOrder() >= 1 {
		for i := 0; i < s.GetN(); i++ {
			fmt.Fprintf(sb, ",%x", math.Float64bits(s.GetDerivative(i)))
		}
	}
	if s.GetOrder() >= 2 {
		for i := 0; i < s.GetN(); i++ {
			for j := 0; j < s.GetN(); j++ {
				if h := s.GetHessian(i, j); h != 0 {
					fmt.Fprintf(sb, ",h%d.%d=%x", i, j, math.Float64bits(h))
				}
			}
		}
	}
	sb.WriteString(";")
}

// all elements' bit patterns, derivatives, order/N, dimensions and the concrete type
func digest(x interface{}) string {
	var sb strings.Builder
	switch v := x.(type) {
	case nil:
		return "absent"
	case ConstMatrix:
		r, c := v.Dims()
		fmt.Fprintf(&sb, "%T %dx%d:", x, r, c)
		for i := 0; i < r; i++ {
			for j := 0; j < c; j++ {
				scalarDigest(&sb, v.ConstAt(i, j))
			}
		}
	case ConstVector:
		fmt.Fprintf(&sb, "%T %d:", x, v.Dim())
		for i := 0; i < v.Dim(); i++ {
			scalarDigest(&sb, v.ConstAt(i))
		}
	case ConstScalar:
		fmt.Fprintf(&sb, "%T:", x)
		scalarDigest(&sb, v)
	case []float64:
		fmt.Fprintf(&sb, "[]float64 %d:", len(v))
		for _, f := range v {
			fmt.Fprintf(&sb, "%x;", math.Float64bits(f))
		}
	case []bool:
		fmt.Fprintf(&sb, "[]bool %v", v)
	case []int:
		fmt.Fprintf(&sb, "[]int %v", v)
	case []ConstVector:
		fmt.Fprintf(&sb, "[]vector %d:", len(v))
		for _, w := range v {
			sb.WriteString(digest(w))
		}
	case string:
		return v
	case func() interface{}:
		return digest(v())
	case []interface{}:
		fmt.Fprintf(&sb, "args %d:", len(v))
		for _, w := range v {
			sb.WriteString(digest(w) + "|")
		}
	default:
		panic(fmt.Sprintf("driver: no digest for %T", x))
	}
	return sb.String()
}

/* ---------------------------------------------------------------- inputs */

type frameRun struct {
	roles map[string]interface{}
	order []string
	strct map[string]interface{} // roles that are walked (share set), not digested
	call  func() error
	note  string
}

func (f *frameRun) role(name string, x interface{}) {
	if f.roles == nil {
		f.roles = map[string]interface{}{}
	}
	if _, ok := f.roles[name]; !ok {
		f.order = append(f.order, name)
	}
	f.roles[name] = x
}

// object returns the Go value of a role for the share-set walk (nil: not present / not an object)
func (f *frameRun) object(name string) interface{} {
	if x, ok := f.strct[name]; ok {
		return x
	}
	switch x := f.roles[name].(type) {
	case func() interface{}, string, nil:
		return nil
	default:
		return x
	}
}

// shallow: what an option value IS (identity of the objects it refers to, plain values and the
// content of plain slices such as Submatrix), not the state of the buffers it points to
func shallow(sb *strings.Builder, v reflect.Value, depth int) {
	if !v.IsValid() {
		sb.WriteString("nil")
		return
	}
	switch v.Kind() {
	case reflect.Ptr, reflect.Func, reflect.Map, reflect.Chan, reflect.UnsafePointer:
		fmt.Fprintf(sb, "@%x", v.Pointer())
	case reflect.Interface:
		if v.IsNil() {
			sb.WriteString("nil")
		} else {
			shallow(sb, v.Elem(), depth)
		}
	case reflect.Slice:
		fmt.Fprintf(sb, "[@%x len=%d", v.Pointer(), v.Len())
		switch v.Type().Elem().Kind() {
		case reflect.Bool, reflect.Int, reflect.Float64, reflect.Int64:
			for i := 0; i < v.Len(); i++ {
				fmt.Fprintf(sb, " %v", v.Index(i))
			}
		}
		sb.WriteString("]")
	case reflect.Struct:
		sb.WriteString("{")
		if depth < 3 {
			for i := 0; i < v.NumField(); i++ {
				shallow(sb, v.Field(i), depth+1)
				sb.WriteString(",")
			}
		}
		sb.WriteString("}")
	default:
		fmt.Fprintf(sb, "%v", v)
	}
}

// keep turns the option list into a slice the CALLER keeps: spare capacity behind the options
// (filled with markers), passed as opts... ; role "opts" digests length, every element and the
// spare region
func (f *frameRun) keep(args []interface{}) []interface{} {
	k := make([]interface{}, len(args), len(args)+4)
	copy(k, args)
	full := k[:cap(k)]
	for i := len(args); i < len(full); i++ {
		full[i] = fmt.Sprintf("spare-%d", i)
	}
	f.role("opts", func() interface{} {
		var sb strings.Builder
		fmt.Fprintf(&sb, "opts len=%d:", len(k))
		for _, x := range full {
			fmt.Fprintf(&sb, "%T=", x)
			shallow(&sb, reflect.ValueOf(x), 0)
			sb.WriteString("|")
		}
		return sb.String()
	})
	return k
}

func (f *frameRun) structural(name string, x interface{}) {
	if f.strct == nil {
		f.strct = map[string]interface{}{}
	}
	f.strct[name] = x
}

// reuseIS registers the work-space structure handed to the call.  In mode "reuse" the caller
// passes ONE, initially empty, InSitu structure to two consecutive calls with different inputs
// (flags such as InitializeH are kept, all buffers start as nil).
func reuseIS(f *frameRun, cache map[string]interface{}, c *fcase, is interface{}) interface{} {
	if c.Mode == "reuse" {
		if old, ok := cache["IS"]; ok {
			is = old
		} else {
			clearBuffers(reflect.ValueOf(is).Elem())
			cache["IS"] = is
		}
	}
	f.structural("IS", is)
	return is
}

func clearBuffers(v reflect.Value) {
	for i := 0; i < v.NumField(); i++ {
		fld := v.Field(i)
		switch fld.Kind() {
		case reflect.Interface, reflect.Ptr, reflect.Slice, reflect.Map:
			if fld.CanSet() {
				fld.Set(reflect.Zero(fld.Type()))
			}
		case reflect.Struct:
			clearBuffers(fld)
		}
	}
}

var inputScale = 1.0 // second call of mode "reuse": other input values
var magClass = "1"   // magnitude class of the case

// the value of input element number k in the magnitude class of the case
func scaled(x float64, k int) float64 {
	switch magClass {
	case "1e150":
		return x * inputScale * 1e150
	case "1e-150":
		return x * inputScale * 1e-150
	case "mixed":
		if k%2 == 0 {
			return x * inputScale * 1e150
		}
		return x * inputScale * 1e-150
	}
	return x * inputScale
}

func elemType(e string) ScalarType {
	switch e {
	case "real64":
		return Real64Type
	case "int":
		return IntType
	}
	return Float64Type
}

func denseMat(e string, vals []float64, r, c int) Matrix {
	m := NullDenseMatrix(elemType(e), r, c)
	for i := 0; i < r; i++ {
		for j := 0; j < c; j++ {
			m.At(i, j).SetFloat64(scaled(vals[i*c+j], i*c+j))
		}
	}
	return m
}
func denseVec(e string, vals []float64) Vector {
	v := NullDenseVector(elemType(e), len(vals))
	for i, x := range vals {
		v.At(i).SetFloat64(scaled(x, i))
	}
	return v
}
func withVars(x interface{}) {
	switch v := x.(type) {
	case MagicMatrix:
		v.Variables(1)
	case MagicVector:
		v.Variables(1)
	}
}

func spd(e string, n int) Matrix {
	if n == 2 {
		return denseMat(e, []float64{4, 1, 1, 3}, 2, 2)
	}
	return denseMat(e, []float64{4, 1, 0.5, 1, 3, 1, 0.5, 1, 2}, 3, 3)
}
func general(e string, n int) Matrix { // real, distinct eigenvalues
	if n == 2 {
		return denseMat(e, []float64{4, 1, 2, 3}, 2, 2)
	}
	return denseMat(e, []float64{4, 1, 0.5, 2, 3, 1, 0.25, 1, 2}, 3, 3)
}
func upper(e string, n int) Matrix {
	if n == 2 {
		return denseMat(e, []float64{2, 1, 0, 3}, 2, 2)
	}
	return denseMat(e, []float64{2, 1, 0.5, 0, 3, 1, 0, 0, 4}, 3, 3)
}
func tall(e string, n int) Matrix { // (n+1) x n
	if n == 2 {
		return denseMat(e, []float64{4, 1, 2, 3, 1, 1}, 3, 2)
	}
	return denseMat(e, []float64{4, 1, 0.5, 2, 3, 1, 0.25, 1, 2, 1, 1, 1}, 4, 3)
}
func ramp(e string, n int) Vector {
	v := make([]float64, n)
	for i := range v {
		v[i] = float64(i) + 1.5
	}
	return denseVec(e, v)
}
func nullM(e string, r, c int) Matrix { return NullDenseMatrix(elemType(e), r, c) }
func nullV(e string, n int) Vector    { return NullDenseVector(elemType(e), n) }
func nullS(e string) Scalar           { return NullScalar(elemType(e)) }

// objective (x-1)'(x-1) with its minimum at 1
func quadratic(x ConstVector) (MagicScalar, error) {
	r := NullReal64()
	t := NullReal64()
	for i := 0; i < x.Dim(); i++ {
		t.Sub(x.ConstAt(i), ConstFloat64(1))
		t.Mul(t, t)
		r.Add(r, t)
	}
	return r, nil
}
func quadraticGradient(x, g DenseFloat64Vector) error {
	for i := range x {
		g[i] = 2 * (x[i] - 1)
	}
	return nil
}
func rootFn(x ConstVector) (MagicVector, error) { // x_i^2 - (i+2) = 0
	r := NullDenseReal64Vector(x.Dim())
	for i := 0; i < x.Dim(); i++ {
		r.At(i).Mul(x.ConstAt(i), x.ConstAt(i))
		r.At(i).Sub(r.At(i), ConstFloat64(float64(i+2)))
	}
	return r, nil
}

/* ---------------------------------------------------------------- entries */

func buildAlgorithm(c *fcase, cache map[string]interface{}) *frameRun {
	f := &frameRun{}
	e, n := c.Elem, c.N
	bufs := c.Mode != "none"
	alias := c.Mode == "alias"
	optimizer := false
	switch strings.Split(c.Entry, ".")[0] {
	case "bfgs", "rprop", "adam", "gradientDescent", "newton", "saga", "blahut":
		optimizer = true // a starting point is a plain vector; the optimiser installs its own variables
	}
	in := func(name string, x interface{}) interface{} {
		if e == "real64" && !optimizer {
			withVars(x) // inputs of the linear algebra routines carry derivatives (part of the digest)
		}
		f.role(name, x)
		return x
	}
	switch c.Entry {
	case "backSubstitution.Run":
		A := in("A", upper(e, n)).(Matrix)
		b := in("b", ramp(e, n)).(Vector)
		is := &backSubstitution.InSitu{}
		if bufs {
			is.A, is.X, is.T = A.CloneMatrix(), nullV(e, n), nullS(e)
			f.role("IS.A", is.A)
			f.role("IS.X", is.X)
			f.role("IS.T", is.T)
			is = reuseIS(f, cache, c, is).(*backSubstitution.InSitu)
		}
		f.call = func() error { _, err := backSubstitution.Run(A, b, is); return err }
	case "cholesky.Run":
		a := in("a", spd(e, n)).(Matrix)
		args := []interface{}{cholesky.LDL{c.opt("LDL")}, cholesky.ForcePD{c.opt("ForcePD")}}
		if bufs {
			is := &cholesky.InSitu{L: nullM(e, n, n), D: nullM(e, n, n), S: nullS(e), T: nullS(e)}
			is = reuseIS(f, cache, c, is).(*cholesky.InSitu)
			f.role("IS.L", is.L)
			f.role("IS.D", is.D)
			f.role("IS.S", is.S)
			f.role("IS.T", is.T)
			args = append(args, is)
		}
		args = f.keep(args)
		f.call = func() error { _, _, err := cholesky.Run(a, args...); return err }
	case "determinant.Run":
		a := in("a", spd(e, n)).(Matrix)
		args := []interface{}{determinant.PositiveDefinite{c.opt("PositiveDefinite")}, determinant.LogScale{c.opt("LogScale")}}
		if bufs {
			is := &determinant.InSitu{Cholesky: cholesky.InSitu{L: nullM(e, n, n), D: nullM(e, n, n), S: nullS(e), T: nullS(e)}}
			is = reuseIS(f, cache, c, is).(*determinant.InSitu)
			f.role("IS.L", is.Cholesky.L)
			f.role("IS.D", is.Cholesky.D)
			f.role("IS.S", is.Cholesky.S)
			f.role("IS.T", is.Cholesky.T)
			args = append(args, is)
		}
		args = f.keep(args)
		f.call = func() error { _, err := determinant.Run(a, args...); return err }
	case "eigensystem.Run":
		var a Matrix
		if c.opt("Symmetric") {
			a = in("a", spd(e, n)).(Matrix)
		} else {
			a = in("a", general(e, n)).(Matrix)
		}
		args := []interface{}{eigensystem.ComputeEigenvectors{c.opt("ComputeEigenvectors")}, eigensystem.Symmetric{c.opt("Symmetric")}}
		if bufs {
			is := &eigensystem.InSitu{Eigenvalues: nullV(e, n), Eigenvectors: nullM(e, n, n)}
			is = reuseIS(f, cache, c, is).(*eigensystem.InSitu)
			is.QrAlgorithm.H, is.QrAlgorithm.InitializeH = nullM(e, n, n), true
			is.QrAlgorithm.U, is.QrAlgorithm.InitializeU = nullM(e, n, n), true
			f.role("IS.Eigenvalues", is.Eigenvalues)
			f.role("IS.Eigenvectors", is.Eigenvectors)
			f.role("IS.H", is.QrAlgorithm.H)
			f.role("IS.U", is.QrAlgorithm.U)
			args = append(args, is)
		}
		args = f.keep(args)
		f.call = func() error { _, _, err := eigensystem.Run(a, args...); return err }
	case "gaussJordan.Run":
		var a Matrix
		if c.opt("UpperTriangular") {
			a = upper(e, n)
		} else {
			a = general(e, n)
		}
		x := nullM(e, n, n)
		x.SetIdentity()
		b := ramp(e, n)
		f.role("a", a)
		f.role("x", x)
		f.role("b", b)
		args := []interface{}{gaussJordan.UpperTriangular{c.opt("UpperTriangular")}}
		if c.opt("Submatrix") {
			sub := make([]bool, n)
			for i := range sub {
				sub[i] = i > 0
			}
			f.role("submatrix", sub)
			args = append(args, gaussJordan.Submatrix{sub})
		}
		args = f.keep(args)
		f.call = func() error { return gaussJordan.Run(a, x, b, args...) }
	case "gramSchmidt.Run":
		a := in("a", general(e, n)).(Matrix)
		args := []interface{}{}
		if bufs {
			is := gramSchmidt.InSitu{Q: nullM(e, n, n), R: nullM(e, n, n)}
			if c.Mode == "reuse" {
				is = gramSchmidt.InSitu{} // passed by value: the callee cannot keep anything in it
			}
			f.structural("IS", &is)
			f.role("IS.Q", is.Q)
			f.role("IS.R", is.R)
			args = append(args, is)
		}
		args = f.keep(args)
		f.call = func() error { _, _, err := gramSchmidt.Run(a, args...); return err }
	case "hessenbergReduction.Run":
		a := in("a", general(e, n)).(Matrix)
		args := []interface{}{hessenbergReduction.ComputeU{c.opt("ComputeU")}, hessenbergReduction.SetZero{c.opt("SetZero")}}
		if bufs {
			is := &hessenbergReduction.InSitu{H: nullM(e, n, n), U: nullM(e, n, n), X: nullV(e, n), Nu: nullV(e, n), T4: nullV(e, n)}
			is = reuseIS(f, cache, c, is).(*hessenbergReduction.InSitu)
			if alias {
				is.H = a
			}
			f.role("IS.H", is.H)
			f.role("IS.U", is.U)
			f.role("IS.X", is.X)
			f.role("IS.Nu", is.Nu)
			f.role("IS.T4", is.T4)
			args = append(args, is)
		}
		args = f.keep(args)
		f.call = func() error { _, _, err := hessenbergReduction.Run(a, args...); return err }
	case "householderBidiagonalization.Run":
		a := in("a", tall(e, n)).(Matrix)
		m := n + 1
		args := []interface{}{householderBidiagonalization.ComputeU{c.opt("ComputeU")}, householderBidiagonalization.ComputeV{c.opt("ComputeV")}}
		if bufs {
			is := &householderBidiagonalization.InSitu{A: nullM(e, m, n), U: nullM(e, m, m), V: nullM(e, n, n), X: nullV(e, m), Nu: nullV(e, m), T4: nullV(e, m)}
			is = reuseIS(f, cache, c, is).(*householderBidiagonalization.InSitu)
			if alias {
				is.A = a
			}
			f.role("IS.A", is.A)
			f.role("IS.U", is.U)
			f.role("IS.V", is.V)
			f.role("IS.X", is.X)
			f.role("IS.Nu", is.Nu)
			f.role("IS.T4", is.T4)
			args = append(args, is)
		}
		args = f.keep(args)
		f.call = func() error { _, _, _, err := householderBidiagonalization.Run(a, args...); return err }
	case "householderTridiagonalization.Run":
		a := in("a", spd(e, n)).(Matrix)
		args := []interface{}{householderTridiagonalization.ComputeU{c.opt("ComputeU")}}
		if bufs {
			is := &householderTridiagonalization.InSitu{A: nullM(e, n, n), U: nullM(e, n, n), X: nullV(e, n), Nu: nullV(e, n), T4: nullV(e, n)}
			is = reuseIS(f, cache, c, is).(*householderTridiagonalization.InSitu)
			if alias {
				is.A = a
			}
			f.role("IS.A", is.A)
			f.role("IS.U", is.U)
			f.role("IS.X", is.X)
			f.role("IS.Nu", is.Nu)
			f.role("IS.T4", is.T4)
			args = append(args, is)
		}
		args = f.keep(args)
		f.call = func() error { _, _, err := householderTridiagonalization.Run(a, args...); return err }
	case "matrixInverse.Run":
		var a Matrix
		switch {
		case c.opt("PositiveDefinite"):
			a = spd(e, n)
		case c.opt("UpperTriangular"):
			a = upper(e, n)
		default:
			a = general(e, n)
		}
		in("matrix", a)
		args := []interface{}{matrixInverse.PositiveDefinite{c.opt("PositiveDefinite")}, matrixInverse.UpperTriangular{c.opt("UpperTriangular")}}
		if c.opt("Submatrix") { // "all other arguments are passed to the Gauss-Jordan algorithm"
			sub := make([]bool, n)
			for i := range sub {
				sub[i] = true
			}
			f.role("submatrix", sub)
			args = append(args, gaussJordan.Submatrix{sub})
		}
		if bufs {
			is := &matrixInverse.InSitu{Id: nullM(e, n, n), A: nullM(e, n, n), B: nullV(e, n)}
			is = reuseIS(f, cache, c, is).(*matrixInverse.InSitu)
			is.Cholesky.L, is.Cholesky.D = nullM(e, n, n), nullM(e, n, n)
			f.role("IS.Id", is.Id)
			f.role("IS.A", is.A)
			f.role("IS.B", is.B)
			f.role("IS.L", is.Cholesky.L)
			f.role("IS.D", is.Cholesky.D)
			args = append(args, is)
		}
		args = f.keep(args)
		f.call = func() error { _, err := matrixInverse.Run(a, args...); return err }
	case "msqrt.Run":
		a := in("matrix", spd(e, n)).(Matrix)
		f.call = func() error { _, err := msqrt.Run(a); return err }
	case "msqrtInv.Run":
		a := in("matrix", spd(e, n)).(Matrix)
		f.call = func() error { _, err := msqrtInv.Run(a); return err }
	case "qrAlgorithm.Run":
		var a Matrix
		if c.opt("Symmetric") {
			a = in("a", spd(e, n)).(Matrix)
		} else {
			a = in("a", general(e, n)).(Matrix)
		}
		args := []interface{}{qrAlgorithm.ComputeU{c.opt("ComputeU")}, qrAlgorithm.Symmetric{c.opt("Symmetric")}, qrAlgorithm.Epsilon{1e-12}}
		if bufs {
			is := &qrAlgorithm.InSitu{InitializeH: true, InitializeU: true, H: nullM(e, n, n), U: nullM(e, n, n), T4: nullV(e, n), X: nullV(e, 3), Nu: nullV(e, 3)}
			is = reuseIS(f, cache, c, is).(*qrAlgorithm.InSitu)
			if alias {
				is.H = a
			}
			f.role("IS.H", is.H)
			f.role("IS.U", is.U)
			f.role("IS.T4", is.T4)
			f.role("IS.X", is.X)
			f.role("IS.Nu", is.Nu)
			args = append(args, is)
		}
		args = f.keep(args)
		f.call = func() error { _, _, err := qrAlgorithm.Run(a, args...); return err }
	case "svd.Run":
		a := in("a", tall(e, n)).(Matrix)
		m := n + 1
		args := []interface{}{svd.ComputeU{c.opt("ComputeU")}, svd.ComputeV{c.opt("ComputeV")}}
		if bufs {
			is := &svd.InSitu{A: nullM(e, m, n), U: nullM(e, m, m), V: nullM(e, n, n)}
			is = reuseIS(f, cache, c, is).(*svd.InSitu)
			f.role("IS.A", is.A)
			f.role("IS.U", is.U)
			f.role("IS.V", is.V)
			args = append(args, is)
		}
		args = f.keep(args)
		f.call = func() error { _, _, _, err := svd.Run(a, args...); return err }
	case "givensRotation.Run":
		a, b, cc, s := NewScalar(elemType(e), scaled(3, 0)), NewScalar(elemType(e), scaled(4, 1)), nullS(e), nullS(e)
		f.role("a", a)
		f.role("b", b)
		f.role("c", cc)
		f.role("s", s)
		f.call = func() error { givensRotation.Run(a, b, cc, s); return nil }
	case "givensRotation.ApplyLeft", "givensRotation.ApplyRight", "givensRotation.ApplyBidiagLeft", "givensRotation.ApplyBidiagRight",
		"givensRotation.ApplyTridiagLeft", "givensRotation.ApplyTridiagRight", "givensRotation.ApplyHessenbergLeft", "givensRotation.ApplyHessenbergRight":
		A := general(e, 3)
		cc, s, t1, t2 := NewScalar(elemType(e), 0.6), NewScalar(elemType(e), -0.8), nullS(e), nullS(e)
		f.role("A", A)
		f.role("c", cc)
		f.role("s", s)
		f.role("t1", t1)
		f.role("t2", t2)
		fn := map[string]func(Matrix, Scalar, Scalar, int, int, Scalar, Scalar){
			"givensRotation.ApplyLeft": givensRotation.ApplyLeft, "givensRotation.ApplyRight": givensRotation.ApplyRight,
			"givensRotation.ApplyBidiagLeft": givensRotation.ApplyBidiagLeft, "givensRotation.ApplyBidiagRight": givensRotation.ApplyBidiagRight,
			"givensRotation.ApplyTridiagLeft": givensRotation.ApplyTridiagLeft, "givensRotation.ApplyTridiagRight": givensRotation.ApplyTridiagRight,
			"givensRotation.ApplyHessenbergLeft": givensRotation.ApplyHessenbergLeft, "givensRotation.ApplyHessenbergRight": givensRotation.ApplyHessenbergRight}[c.Entry]
		f.call = func() error { fn(A, cc, s, 0, 1, t1, t2); return nil }
	case "householder.Run":
		x := in("x", ramp(e, n)).(Vector)
		beta, nu, t1, t2, t3 := nullS(e), nullV(e, n), nullS(e), nullS(e), nullS(e)
		f.role("beta", beta)
		f.role("nu", nu)
		f.role("t1", t1)
		f.role("t2", t2)
		f.role("t3", t3)
		f.call = func() error { householder.Run(x, beta, nu, t1, t2, t3); return nil }
	case "householder.ApplyLeft", "householder.ApplyRight":
		A := general(e, n)
		beta, nu, t1, t2 := NewScalar(elemType(e), 0.5), ramp(e, n), nullV(e, n), nullS(e)
		f.role("A", A)
		f.role("beta", beta)
		f.role("nu", nu)
		f.role("t1", t1)
		f.role("t2", t2)
		if c.Entry == "householder.ApplyLeft" {
			f.call = func() error { householder.ApplyLeft(A, beta, nu, t1, t2); return nil }
		} else {
			f.call = func() error { householder.ApplyRight(A, beta, nu, t1, t2); return nil }
		}
	/* optimisers */
	case "bfgs.Run":
		x0 := in("x0", ramp(e, n)).(Vector)
		args := []interface{}{bfgs.Epsilon{1e-6}}
		if c.opt("Hessian") {
			H := spd("float64", n)
			f.role("H0", H)
			args = append(args, bfgs.Hessian{H})
		}
		if c.opt("Hook") {
			args = append(args, bfgs.Hook{func(x, g ConstVector, y ConstScalar) bool { return false }})
		}
		if c.opt("Constraints") {
			args = append(args, bfgs.Constraints{func(x Vector) bool { return true }})
		}
		if c.opt("MaxIterations") {
			args = append(args, bfgs.MaxIterations{3})
		} else {
			args = append(args, bfgs.MaxIterations{200})
		}
		args = f.keep(args)
		f.call = func() error { _, err := bfgs.Run(quadratic, x0, args...); return err }
	case "rprop.Run", "rprop.RunGradient":
		eta := []float64{1.2, 0.5}
		if c.opt("EtaSwapped") {
			eta = []float64{0.5, 1.2}
		}
		f.role("eta", eta)
		args := []interface{}{rprop.Epsilon{1e-6}}
		if c.opt("Hook") {
			args = append(args, rprop.Hook{func(g, s []float64, x ConstVector, y ConstScalar) bool { return false }})
		}
		if c.opt("MaxIterations") {
			args = append(args, rprop.MaxIterations{3})
		} else {
			args = append(args, rprop.MaxIterations{300})
		}
		if c.Entry == "rprop.Run" {
			x0 := in("x0", ramp(e, n)).(Vector)
			if c.opt("Constraints") {
				args = append(args, rprop.Constraints{func(x Vector) bool { return true }})
			}
			args = f.keep(args)
			f.call = func() error { _, err := rprop.Run(quadratic, x0, 0.1, eta, args...); return err }
		} else {
			x0 := ramp("float64", n).(DenseFloat64Vector)
			f.role("x0", x0)
			if c.opt("Constraints") {
				args = append(args, rprop.ConstConstraints{func(x ConstVector) bool { return true }})
			}
			args = f.keep(args)
			f.call = func() error {
				_, err := rprop.RunGradient(rprop.DenseGradientF(quadraticGradient), x0, 0.1, eta, args...)
				return err
			}
		}
	case "adam.Run", "adam.RunGradient":
		args := []interface{}{adam.Epsilon{1e-6}}
		if c.opt("Hook") {
			args = append(args, adam.Hook{func(x, g ConstVector, y ConstScalar) bool { return false }})
		}
		if c.opt("MaxIterations") {
			args = append(args, adam.MaxIterations{3})
		} else {
			args = append(args, adam.MaxIterations{200})
		}
		if c.Entry == "adam.Run" {
			x0 := in("x0", ramp(e, n)).(Vector)
			if c.opt("Constraints") {
				args = append(args, adam.Constraints{func(x Vector) bool { return true }})
			}
			args = f.keep(args)
			f.call = func() error { _, err := adam.Run(quadratic, x0, args...); return err }
		} else {
			x0 := ramp("float64", n).(DenseFloat64Vector)
			f.role("x0", x0)
			if c.opt("Constraints") {
				args = append(args, adam.ConstConstraints{func(x ConstVector) bool { return true }})
			}
			args = f.keep(args)
			f.call = func() error {
				_, err := adam.RunGradient(adam.DenseGradientF(quadraticGradient), x0, args...)
				return err
			}
		}
	case "gradientDescent.Run":
		x0 := in("x0", ramp(e, n)).(Vector)
		args := []interface{}{gradientDescent.Epsilon{1e-6}}
		k := 0
		if c.opt("Hook") {
			args = append(args, gradientDescent.Hook{func(g []float64, x ConstVector, y ConstScalar) bool { k++; return k > 500 }})
		}
		args = f.keep(args)
		f.call = func() error { _, err := gradientDescent.Run(quadratic, x0, 0.1, args...); return err }
	case "newton.RunRoot", "newton.RunCrit", "newton.RunMin":
		x := in("x", ramp(e, n)).(Vector)
		args := []interface{}{newton.Epsilon{1e-8}}
		if c.opt("Constraints") {
			args = append(args, newton.Constraints{func(x Vector) bool { return true }})
		}
		if c.opt("MaxIterations") {
			args = append(args, newton.MaxIterations{2})
		} else {
			args = append(args, newton.MaxIterations{50})
		}
		if c.opt("HessianModification") {
			args = append(args, newton.HessianModification{"LDL"})
		}
		if bufs {
			is := &newton.InSitu{T1: nullV("float64", n)}
			is = reuseIS(f, cache, c, is).(*newton.InSitu)
			f.role("IS.T1", is.T1)
			args = append(args, is)
		}
		switch c.Entry {
		case "newton.RunRoot":
			if c.opt("Hook") {
				args = append(args, newton.HookRoot{func(x ConstVector, J ConstMatrix, y ConstVector) bool { return false }})
			}
			args = f.keep(args)
			f.call = func() error { _, err := newton.RunRoot(rootFn, x, args...); return err }
		case "newton.RunCrit":
			if c.opt("Hook") {
				args = append(args, newton.HookCrit{func(x ConstVector, J ConstMatrix, y ConstVector) bool { return false }})
			}
			args = f.keep(args)
			f.call = func() error { _, err := newton.RunCrit(quadratic, x, args...); return err }
		default:
			if c.opt("Hook") {
				args = append(args, newton.HookMin{func(x, g ConstVector, H ConstMatrix, y ConstScalar) bool { return false }})
			}
			args = f.keep(args)
			f.call = func() error { _, err := newton.RunMin(quadratic, x, args...); return err }
		}
	case "saga.Run":
		x := in("x", ramp(e, n)).(Vector)
		obj := saga.Objective2Dense(func(i int, x DenseFloat64Vector) (float64, DenseFloat64Vector, error) {
			g := make([]float64, len(x))
			y := 0.0
			for k := range x {
				d := x[k] - float64(i%2)
				y += d * d
				g[k] = 2 * d
			}
			return y, DenseFloat64Vector(g), nil
		})
		args := []interface{}{saga.MaxIterations{20}, saga.Seed{int64(7)}, saga.Gamma{0.05}}
		if c.opt("L1Regularization") {
			args = append(args, saga.L1Regularization{0.1})
		}
		if c.opt("L2Regularization") {
			args = append(args, saga.L2Regularization{0.1})
		}
		if c.opt("TikhonovRegularization") {
			args = append(args, saga.TikhonovRegularization{0.1})
		}
		if bufs {
			is := &saga.InSitu{T1: NullDenseFloat64Vector(n)}
			is = reuseIS(f, cache, c, is).(*saga.InSitu)
			f.role("IS.T1", is.T1)
			args = append(args, is)
		}
		args = f.keep(args)
		f.call = func() error { _, _, err := saga.Run(obj, 4, x, args...); return err }
	case "blahut.Run":
		var ch Matrix
		var p Vector
		if n == 2 {
			ch, p = denseMat(e, []float64{0.9, 0.1, 0.2, 0.8}, 2, 2), denseVec(e, []float64{0.5, 0.5})
		} else {
			ch, p = denseMat(e, []float64{0.8, 0.1, 0.1, 0.1, 0.8, 0.1, 0.2, 0.2, 0.6}, 3, 3), denseVec(e, []float64{0.3, 0.3, 0.4})
		}
		f.role("channel", ch)
		f.role("p_init", p)
		args := []interface{}{}
		if c.opt("Hook") {
			args = append(args, blahut.Hook{func(p Vector, J Scalar) bool { return false }})
		}
		if c.opt("Lambda") {
			args = append(args, blahut.Lambda{0.5})
		}
		args = f.keep(args)
		f.call = func() error { blahut.Run(ch, p, 5, args...); return nil }
	default:
		return nil
	}
	return f
}

/* ---------------------------------------------------------------- r.Op(a, b) */

func storedVec(e, st string, vals []float64) Vector {
	var v Vector
	if st == "sparse" {
		v = NullSparseVector(elemType(e), len(vals))
	} else {
		v = NullDenseVector(elemType(e), len(vals))
	}
	for i, x := range vals {
		if x != 0 {
			v.At(i).SetFloat64(x)
		}
	}
	return v
}
func storedMat(e, st string, vals []float64, r, c int) Matrix {
	var m Matrix
	if st == "sparse" {
		m = NullSparseMatrix(elemType(e), r, c)
	} else {
		m = NullDenseMatrix(elemType(e), r, c)
	}
	for i := 0; i < r; i++ {
		for j := 0; j < c; j++ {
			if vals[i*c+j] != 0 {
				m.At(i, j).SetFloat64(vals[i*c+j] * inputScale)
			}
		}
	}
	return m
}

func buildOp(c *fcase) *frameRun {
	f := &frameRun{}
	e := c.Elem
	va := []float64{1, 0, 2, 3}
	vb := []float64{2, 1, 0, 4}
	ma := []float64{1, 0, 2, 3}
	mb := []float64{2, 1, 0, 4}
	mkS := func(x float64) Scalar { return NewScalar(elemType(e), x) }
	real := e == "real64"
	switch c.Entry {
	case "vector.op":
		r := storedVec(e, c.Sr, []float64{5, 0, 6, 0})
		if c.Op == "MdotV" || c.Op == "VdotM" {
			r = storedVec(e, c.Sr, []float64{5, 0})
		}
		f.role("r", r)
		switch c.Op {
		case "VaddV", "VsubV", "VmulV", "VdivV", "Set":
			a, b := storedVec(e, c.Sa, va), storedVec(e, c.Sb, vb)
			if c.Op == "VdivV" {
				b = storedVec(e, c.Sb, []float64{2, 1, 1, 4})
			}
			if real {
				withVars(a)
			}
			f.role("a", a)
			f.role("b", b)
			f.call = func() error {
				switch c.Op {
				case "VaddV":
					r.VaddV(a, b)
				case "VsubV":
					r.VsubV(a, b)
				case "VmulV":
					r.VmulV(a, b)
				case "VdivV":
					r.VdivV(a, b)
				case "Set":
					r.Set(a)
				}
				return nil
			}
		case "VaddS", "VsubS", "VmulS", "VdivS":
			a, b := storedVec(e, c.Sa, va), mkS(2)
			if real {
				withVars(a)
			}
			f.role("a", a)
			f.role("b", b)
			f.call = func() error {
				switch c.Op {
				case "VaddS":
					r.VaddS(a, b)
				case "VsubS":
					r.VsubS(a, b)
				case "VmulS":
					r.VmulS(a, b)
				case "VdivS":
					r.VdivS(a, b)
				}
				return nil
			}
		case "MdotV":
			a, b := storedMat(e, c.Sa, ma, 2, 2), storedVec(e, c.Sb, []float64{1, 2})
			if real {
				withVars(a)
			}
			f.role("a", a)
			f.role("b", b)
			f.call = func() error { r.MdotV(a, b); return nil }
		case "VdotM":
			a, b := storedVec(e, c.Sa, []float64{1, 2}), storedMat(e, c.Sb, mb, 2, 2)
			if real {
				withVars(a)
			}
			f.role("a", a)
			f.role("b", b)
			f.call = func() error { r.VdotM(a, b); return nil }
		}
	case "matrix.op":
		r := storedMat(e, c.Sr, []float64{5, 0, 0, 6}, 2, 2)
		f.role("r", r)
		switch c.Op {
		case "MaddM", "MsubM", "MmulM", "MdivM", "MdotM", "Set":
			a, b := storedMat(e, c.Sa, ma, 2, 2), storedMat(e, c.Sb, mb, 2, 2)
			if c.Op == "MdivM" {
				b = storedMat(e, c.Sb, []float64{2, 1, 1, 4}, 2, 2)
			}
			if real {
				withVars(a)
			}
			f.role("a", a)
			f.role("b", b)
			f.call = func() error {
				switch c.Op {
				case "MaddM":
					r.MaddM(a, b)
				case "MsubM":
					r.MsubM(a, b)
				case "MmulM":
					r.MmulM(a, b)
				case "MdivM":
					r.MdivM(a, b)
				case "MdotM":
					r.MdotM(a, b)
				case "Set":
					r.Set(a)
				}
				return nil
			}
		case "MaddS", "MsubS", "MmulS", "MdivS":
			a, b := storedMat(e, c.Sa, ma, 2, 2), mkS(2)
			if real {
				withVars(a)
			}
			f.role("a", a)
			f.role("b", b)
			f.call = func() error {
				switch c.Op {
				case "MaddS":
					r.MaddS(a, b)
				case "MsubS":
					r.MsubS(a, b)
				case "MmulS":
					r.MmulS(a, b)
				case "MdivS":
					r.MdivS(a, b)
				}
				return nil
			}
		case "Outer":
			a, b := storedVec(e, c.Sa, []float64{1, 2}), storedVec(e, c.Sb, []float64{0, 3})
			if real {
				withVars(a)
			}
			f.role("a", a)
			f.role("b", b)
			f.call = func() error { r.Outer(a, b); return nil }
		}
	case "scalar.op":
		r := mkS(0)
		f.role("r", r)
		switch c.Op {
		case "Vmean", "Vnorm", "VdotV", "SmoothMax", "LogSmoothMax":
			a, b := storedVec(e, c.Sa, va), storedVec(e, c.Sb, vb)
			if real {
				withVars(a)
			}
			f.role("a", a)
			f.role("b", b)
			t := [3]Scalar{mkS(0), mkS(0), mkS(0)}
			f.role("t", t[0])
			f.call = func() error {
				switch c.Op {
				case "Vmean":
					r.Vmean(a)
				case "Vnorm":
					r.Vnorm(a)
				case "VdotV":
					r.VdotV(a, b)
				case "SmoothMax":
					r.SmoothMax(a, ConstFloat64(2), [2]Scalar{t[0], t[1]})
				case "LogSmoothMax":
					r.LogSmoothMax(a, ConstFloat64(2), t)
				}
				return nil
			}
		case "Mnorm", "Mtrace":
			a := storedMat(e, c.Sa, ma, 2, 2)
			if real {
				withVars(a)
			}
			f.role("a", a)
			f.call = func() error {
				if c.Op == "Mnorm" {
					r.Mnorm(a)
				} else {
					r.Mtrace(a)
				}
				return nil
			}
		case "Add", "Mul", "LogAdd":
			a, b, t := mkS(2), mkS(3), mkS(0)
			if real {
				a.(MagicScalar).SetVariable(0, 2, 2)
				b.(MagicScalar).SetVariable(1, 2, 2)
			}
			f.role("a", a)
			f.role("b", b)
			f.role("t", t)
			f.call = func() error {
				switch c.Op {
				case "Add":
					r.Add(a, b)
				case "Mul":
					r.Mul(a, b)
				case "LogAdd":
					r.LogAdd(a, b, t)
				}
				return nil
			}
		}
	}
	if f.call == nil {
		return nil
	}
	return f
}

/* ---------------------------------------------------------------- driver */

func frame(casesPath, resultsPath, tracePath string) {
	out := vh.NewOut(resultsPath)
	tr := vh.NewOut(tracePath)
	ncases, executed, panics, errs, unknown := 0, 0, 0, 0, 0
	unknownNames := map[string]int{}
	panicNames := map[string]string{}
	rolesChecked := 0
	entries := map[string]int{}
	wd := vh.NewWatchdog(60*time.Second, out, vh.M{"engine": "copysem", "part": "B"})
	err := vh.EachLine(casesPath, func(line []byte) error {
		c := &fcase{}
		if e := json.Unmarshal(line, c); e != nil {
			return e
		}
		ncases++
		var f, prev *frameRun
		cache := map[string]interface{}{}
		magClass = c.Mag
		if magClass == "" {
			magClass = "1"
		}
		bmsg := vh.Try(func() {
			switch {
			case strings.HasPrefix(c.Entry, "dist.") || strings.HasPrefix(c.Entry, "estimator."):
				f = buildDist(c)
			case strings.HasSuffix(c.Entry, ".op"):
				f = buildOp(c)
			case c.Mode == "reuse":
				// first call with the caller's (empty) work-space structure and other inputs
				inputScale = 1.5
				prev = buildAlgorithm(c, cache)
				inputScale = 1.0
				if prev != nil {
					vh.Try(func() { prev.call() })
					f = buildAlgorithm(c, cache)
					for _, r := range prev.order {
						if !strings.HasPrefix(r, "IS.") {
							f.role("prev."+r, prev.roles[r])
						}
					}
				}
			default:
				f = buildAlgorithm(c, cache)
			}
		})
		inputScale = 1.0
		name := c.Entry
		if c.Op != "" {
			name += ":" + c.Op
		}
		if bmsg != "" {
			vh.Fatal("driver: building inputs for", name, c.Elem, c.Mode, c.optString(), ":", bmsg)
		}
		if f == nil {
			unknown++
			unknownNames[name]++
			return nil
		}
		before := map[string]string{}
		for _, r := range f.order {
			before[r] = digest(f.roles[r])
		}
		wd.Begin(c)
		var cerr error
		msg := vh.Try(func() { cerr = f.call() })
		wd.End()
		after := map[string]string{}
		dmsg := vh.Try(func() {
			for _, r := range f.order {
				after[r] = digest(f.roles[r])
			}
		})
		outcome := "ok"
		if msg != "" {
			outcome = "panic"
			panics++
			panicNames[name+"/"+c.Elem+"/"+c.Mode+"/"+c.optString()] = msg
		} else if cerr != nil {
			outcome = "error"
			errs++
		}
		executed++
		entries[c.Entry]++
		sig := vh.M{"engine": "copysem", "part": "B", "entry": c.Entry, "op": c.Op, "elem": c.Elem, "mode": c.Mode, "mag": magClass,
			"opts": c.optString(), "outcome": outcome}
		if c.Sr != "-" || c.Sa != "-" {
			sig["storage"] = c.Sr + "/" + c.Sa + "/" + c.Sb
		}
		if dmsg != "" {
			s := copyM(sig)
			s["what"] = "panic_reading_argument"
			vh.Mismatch(out, s, vh.M{"mode": "frame", "case": c, "why": dmsg})
			return nil
		}
		// share sets that must be empty: a work-space structure keeps no reference to the caller's
		// inputs, a clone reaches nothing its source reaches
		retained := []string{}
		if outcome != "panic" {
			for _, pr := range c.Disjoint {
				if len(pr) != 2 {
					continue
				}
				x, y := f.object(pr[0]), f.object(pr[1])
				if x == nil || y == nil {
					continue
				}
				var cm []span
				wmsg := vh.Try(func() { cm = common(reach(x), reach(y)) })
				if wmsg != "" {
					vh.Fatal("driver: walking", name, pr, wmsg)
				}
				rolesChecked++
				if len(cm) > 0 {
					retained = append(retained, pr[0]+"~"+pr[1])
					s := copyM(sig)
					s["what"], s["role"] = "shares_storage", pr[0]+"~"+pr[1]
					vh.Mismatch(out, s, vh.M{"mode": "frame", "case": c, "role": pr, "common": cm[0].path, "bytes": cm[0].hi - cm[0].lo, "n_common": len(cm)})
				}
			}
		}
		changed := []string{}
		for _, r := range f.order {
			if before[r] != after[r] {
				changed = append(changed, r)
			}
		}
		sort.Strings(changed)
		// the frame condition printed by TLC: every role in keep that exists in this call is unchanged
		for _, r := range c.Keep {
			if _, ok := before[r]; !ok {
				continue
			}
			rolesChecked++
			if outcome == "panic" {
				continue // the state after a panic is not specified
			}
			if before[r] != after[r] {
				s := copyM(sig)
				s["what"], s["role"] = "input_changed", r
				vh.Mismatch(out, s, vh.M{"mode": "frame", "case": c, "role": r, "before": clip(before[r]), "after": clip(after[r]), "note": f.note})
			}
		}
		roles := []vh.M{}
		for _, r := range f.order {
			roles = append(roles, vh.M{"role": r, "changed": before[r] != after[r]})
		}
		tr.Put(vh.M{"entry": c.Entry, "op": c.Op, "mode": c.Mode, "elem": c.Elem, "n": c.N, "sr": c.Sr, "sa": c.Sa, "sb": c.Sb,
			"opts": c.Opts, "outcome": outcome, "roles": roles, "shared": retained})
		return nil
	})
	if err != nil {
		vh.Fatal("cases:", err)
	}
	vh.Summary(out, vh.M{"cases": ncases, "executed": executed, "panics": panics, "errors": errs, "unknown": unknown,
		"unknown_names": unknownNames, "panic_names": panicNames, "roles_checked": rolesChecked, "entries": entries,
		"information": distInfo})
	out.Close()
	tr.Close()
	_ = os.Stdout
}

func copyM(m vh.M) vh.M {
	r := vh.M{}
	for k, v := range m {
		r[k] = v
	}
	return r
}

func clip(s string) string {
	if len(s) > 600 {
		return s[:600] + "..."
	}
	return s
}
