// Conformance driver for C12 "copies are independent and read-only inputs are
// left unchanged".
//
//	copysem replay <cases.ndjson> <results.ndjson>
//	    executes the call histories printed by TLC for spec/CopySemantics.tla
//	    (one per transition of the heap model) on the real scalars, vectors,
//	    matrices and iterators, for dense and sparse storage and all nine
//	    mutable element types, and compares the full observable state of every
//	    live object (elements, derivatives, dimensions, iteration sequence,
//	    iterator position) with the content the specification printed.
//	copysem record <trace.ndjson> <ntraces> <nops>
//	    seeded random longer histories on larger objects (nested views), one
//	    event per call with the observed content of every live object,
//	    validated afterwards by spec/CopySemanticsTrace.tla.
//	copysem frame <cases.ndjson> <results.ndjson> <trace.ndjson>
//	    part B: for every (entry point, option combination) printed by TLC for
//	    spec/FrameConditions.tla builds admissible inputs, digests every
//	    argument before and after the call and compares per the printed frame
//	    condition; the digests are also logged for spec/FrameTrace.tla.
//
// The driver only interprets: which objects must be equal / unchanged comes
// from TLC.
package main

import (
	"encoding/json"
	"fmt"
	"hash/fnv"
	"os"
	"strconv"
	"strings"
	"sync"
	"time"

	. "github.com/pbenner/autodiff"
	"verifharness/vh"
)

/* ---------------------------------------------------------------- case format */

type step struct {
	Op string `json:"op"`
	S  int    `json:"s"`
	A  int    `json:"a"`
	B  int    `json:"b"`
	C  int    `json:"c"`
	D  int    `json:"d"`
	W  int    `json:"w"`
}

type content struct {
	K   string `json:"k"`
	Of  string `json:"of"`
	R   int    `json:"r"`
	C   int    `json:"c"`
	Fl  bool   `json:"fl"`
	Pt  bool   `json:"pt"`
	Pos int    `json:"pos"`
	V   []int  `json:"v"`
	D   []int  `json:"d"`
	V2  []int  `json:"v2"`
}

type tcase struct {
	Fam   string    `json:"fam"`
	Pat   string    `json:"pat"`
	Init  []int     `json:"init"`
	Steps []step    `json:"steps"`
	Exp   []content `json:"exp"`
	Res   []int     `json:"res"`
	Prev  []content `json:"prev"`
	Share []shareRec `json:"share"`

	taint    [2]bool // per base storage: not compared (see sparseDeviation)
	realOnly bool
}

/* ---------------------------------------------------------------- element types */

var typeNames = []string{"int8", "int16", "int32", "int64", "int", "float32", "float64", "real32", "real64"}

func typeOf(i int) ScalarType {
	return []ScalarType{Int8Type, Int16Type, Int32Type, Int64Type, IntType, Float32Type, Float64Type, Real32Type, Real64Type}[i]
}

// partner element type of the "asType" conversions
var partner = []int{1, 2, 3, 4, 6, 7, 8, 5, 6}

func isReal(i int) bool { return i >= 7 }

type inst struct {
	sparse bool
	ti     int
}

func (in inst) storage() string {
	if in.sparse {
		return "sparse"
	}
	return "dense"
}

/* ---------------------------------------------------------------- real objects */

type vecIter interface {
	Ok() bool
	Next()
	Index() int
	GetConst() ConstScalar
}
type matIter interface {
	Ok() bool
	Next()
	Index() (int, int)
	GetConst() ConstScalar
}

type obj struct {
	k      string
	sc     Scalar
	v      Vector
	m      Matrix
	vi     vecIter
	mi     matIter
	vj     vecJoint
	mj     matJoint
	t      *AvlTree
	ai     *AvlIterator
	cv     ConstVector // read-only vectors: SparseConst<T>Vector, DenseGradient
	sparse bool
	ti     int
	flavor string // how it was made (evidence / signature)
}

type world struct {
	objs []*obj
	rot  int  // rotation of API flavours
	base inst // storage and element type of the first object
}

func (w *world) pick(n int) int {
	w.rot = w.rot*31 + 7
	if w.rot < 0 {
		w.rot = -w.rot
	}
	return w.rot % n
}

func newVector(ti int, sparse bool, n int) Vector {
	if sparse {
		return NullSparseVector(typeOf(ti), n)
	}
	return NullDenseVector(typeOf(ti), n)
}
func newMatrix(ti int, sparse bool, r, c int) Matrix {
	if sparse {
		return NullSparseMatrix(typeOf(ti), r, c)
	}
	return NullDenseMatrix(typeOf(ti), r, c)
}

// constant operands are always dense float64 / int containers that the driver owns
func constVector(n int, w int) Vector {
	v := NullDenseFloat64Vector(n)
	for i := 0; i < n; i++ {
		v[i] = float64(w)
	}
	return v
}
func constMatrix(r, c int, w int) Matrix {
	m := NullDenseFloat64Matrix(r, c)
	for i := 0; i < r; i++ {
		for j := 0; j < c; j++ {
			m.At(i, j).SetFloat64(float64(w))
		}
	}
	return m
}

func setPlain(s Scalar, w int, f int) {
	switch f % 7 {
	case 0:
		s.SetFloat64(float64(w))
	case 1:
		s.SetInt(w)
	case 2:
		s.SetInt8(int8(w))
	case 3:
		s.SetFloat32(float32(w))
	case 4:
		s.SetInt64(int64(w))
	case 5:
		s.SetInt16(int16(w))
	case 6:
		s.SetInt32(int32(w))
	}
}

// value := w, derivative state := constant (order 0)
func assignConst(s Scalar, w int, f int) {
	switch f % 4 {
	case 0:
		s.Set(ConstFloat64(float64(w)))
	case 1:
		s.Add(ConstInt(w-1), ConstInt(1))
	case 2:
		s.Sub(ConstFloat64(float64(w+2)), ConstFloat64(2))
	case 3:
		s.Mul(ConstFloat64(float64(w)), ConstInt8(1))
	}
}

func (w *world) make(c *tcase, in inst) {
	st := c.Steps[0]
	o := &obj{k: map[string]string{"sca": "s", "vec": "v", "mat": "m", "avl": "t"}[c.Fam], sparse: in.sparse, ti: in.ti, flavor: "make"}
	switch o.k {
	case "t":
		o.t = NewAvlTree()
		for _, x := range c.Init {
			o.t.Insert(x)
		}
	case "s":
		o.sc = NewScalar(typeOf(in.ti), float64(c.Init[0]))
	case "v":
		o.v = newVector(in.ti, in.sparse, len(c.Init))
		for i, x := range c.Init {
			if x != 0 {
				o.v.At(i).SetInt(x)
			}
		}
	case "m":
		o.m = newMatrix(in.ti, in.sparse, st.A, st.B)
		for p, x := range c.Init {
			if x != 0 {
				o.m.At(p/st.B, p%st.B).SetInt(x)
			}
		}
	}
	w.objs = append(w.objs, o)
}

func (o *obj) dims() (int, int) {
	if o.t != nil {
		n := 0
		for it := o.t.Iterator(); it.Ok() && n < 1000; it.Next() {
			n++
		}
		return 1, n
	}
	if o.cv != nil {
		return 1, o.cv.Dim()
	}
	switch o.k {
	case "v":
		return 1, o.v.Dim()
	case "m":
		return o.m.Dims()
	}
	return 1, 1
}

// element p (1-based, row-major in the object's own coordinates)
func (o *obj) at(p int) Scalar {
	switch o.k {
	case "s":
		return o.sc
	case "v":
		return o.v.At(p - 1)
	default:
		_, c := o.m.Dims()
		return o.m.At((p-1)/c, (p-1)%c)
	}
}
func (o *obj) constAt(p int) ConstScalar {
	if o.cv != nil {
		return o.cv.ConstAt(p - 1)
	}
	switch o.k {
	case "s":
		return o.sc
	case "v":
		return o.v.ConstAt(p - 1)
	default:
		_, c := o.m.Dims()
		return o.m.ConstAt((p-1)/c, (p-1)%c)
	}
}

func asVector(ti int, sparse bool, v ConstVector) Vector {
	if sparse {
		return AsSparseVector(typeOf(ti), v)
	}
	return AsDenseVector(typeOf(ti), v)
}
func asMatrix(ti int, sparse bool, m ConstMatrix) Matrix {
	if sparse {
		return AsSparseMatrix(typeOf(ti), m)
	}
	return AsDenseMatrix(typeOf(ti), m)
}

// apply executes one call; res is the content of a probe's result
func (w *world) apply(st step) (res []float64, note string) {
	o := w.objs[st.S-1]
	f := w.pick(64)
	if w.applyExtra(st, f) || w.applyConst(st, f) {
		return
	}
	switch st.Op {
	case "clone":
		n := &obj{k: o.k, sparse: o.sparse, ti: o.ti}
		switch o.k {
		case "s":
			switch ms, ok := o.sc.(MagicScalar); {
			case f%3 == 0 && ok:
				n.sc, n.flavor = ms.CloneMagicScalar(), "CloneMagicScalar"
			case f%3 == 1:
				n.sc, n.flavor = o.sc.CloneConstScalar().(Scalar), "CloneConstScalar"
			default:
				n.sc, n.flavor = o.sc.CloneScalar(), "CloneScalar"
			}
		case "v":
			switch mv, ok := o.v.(MagicVector); {
			case f%3 == 0 && ok:
				n.v, n.flavor = mv.CloneMagicVector(), "CloneMagicVector"
			case f%3 == 1:
				n.v, n.flavor = o.v.CloneConstVector().(Vector), "CloneConstVector"
			default:
				n.v, n.flavor = o.v.CloneVector(), "CloneVector"
			}
		case "m":
			switch mm, ok := o.m.(MagicMatrix); {
			case f%3 == 0 && ok:
				n.m, n.flavor = mm.CloneMagicMatrix(), "CloneMagicMatrix"
			case f%3 == 1:
				n.m, n.flavor = o.m.CloneConstMatrix().(Matrix), "CloneConstMatrix"
			default:
				n.m, n.flavor = o.m.CloneMatrix(), "CloneMatrix"
			}
		}
		w.objs = append(w.objs, n)
	case "asSame", "asFlip", "asType":
		n := &obj{k: o.k, sparse: o.sparse, ti: o.ti, flavor: st.Op}
		if st.Op == "asFlip" {
			n.sparse = !o.sparse
		}
		if st.Op == "asType" { // to the partner type and back
			if o.ti == w.base.ti {
				n.ti = partner[o.ti]
			} else {
				n.ti = w.base.ti
			}
		}
		switch o.k {
		case "s":
			if ms, ok := o.sc.(MagicScalar); ok && f%2 == 0 && isReal(n.ti) {
				n.sc, n.flavor = ms.ConvertMagicScalar(typeOf(n.ti)), "ConvertMagicScalar"
			} else {
				n.sc, n.flavor = o.sc.ConvertScalar(typeOf(n.ti)), "ConvertScalar"
			}
		case "v":
			if isReal(n.ti) && f%2 == 0 {
				if n.sparse {
					n.v, n.flavor = AsSparseMagicVector(typeOf(n.ti), o.v), "AsSparseMagicVector"
				} else {
					n.v, n.flavor = AsDenseMagicVector(typeOf(n.ti), o.v), "AsDenseMagicVector"
				}
			} else {
				n.v = asVector(n.ti, n.sparse, o.v)
			}
		case "m":
			if isReal(n.ti) && f%2 == 0 {
				if n.sparse {
					n.m, n.flavor = AsSparseMagicMatrix(typeOf(n.ti), o.m), "AsSparseMagicMatrix"
				} else {
					n.m, n.flavor = AsDenseMagicMatrix(typeOf(n.ti), o.m), "AsDenseMagicMatrix"
				}
			} else {
				n.m = asMatrix(n.ti, n.sparse, o.m)
			}
		}
		w.objs = append(w.objs, n)
	case "row":
		w.objs = append(w.objs, &obj{k: "v", v: o.m.Row(st.A), sparse: o.sparse, ti: o.ti, flavor: "Row"})
	case "col":
		w.objs = append(w.objs, &obj{k: "v", v: o.m.Col(st.A), sparse: o.sparse, ti: o.ti, flavor: "Col"})
	case "slice":
		n := &obj{k: "v", sparse: o.sparse, ti: o.ti, flavor: "Slice"}
		if mv, ok := o.v.(MagicVector); ok && f%2 == 0 {
			n.v, n.flavor = mv.MagicSlice(st.A, st.B), "MagicSlice"
		} else {
			n.v = o.v.Slice(st.A, st.B)
		}
		w.objs = append(w.objs, n)
	case "mslice":
		n := &obj{k: "m", sparse: o.sparse, ti: o.ti, flavor: "Slice"}
		if mm, ok := o.m.(MagicMatrix); ok && f%2 == 0 {
			n.m, n.flavor = mm.MagicSlice(st.A, st.B, st.C, st.D), "MagicSlice"
		} else {
			n.m = o.m.Slice(st.A, st.B, st.C, st.D)
		}
		w.objs = append(w.objs, n)
	case "T":
		n := &obj{k: "m", sparse: o.sparse, ti: o.ti, flavor: "T"}
		if mm, ok := o.m.(MagicMatrix); ok && f%2 == 0 {
			n.m, n.flavor = mm.MagicT(), "MagicT"
		} else {
			n.m = o.m.T()
		}
		w.objs = append(w.objs, n)
	case "elem":
		n := &obj{k: "s", sparse: o.sparse, ti: o.ti, flavor: "At"}
		if o.k == "v" {
			if mv, ok := o.v.(MagicVector); ok && f%2 == 0 {
				n.sc, n.flavor = mv.MagicAt(st.B), "MagicAt"
			} else {
				n.sc = o.v.At(st.B)
			}
		} else {
			if mm, ok := o.m.(MagicMatrix); ok && f%2 == 0 {
				n.sc, n.flavor = mm.MagicAt(st.A, st.B), "MagicAt"
			} else {
				n.sc = o.m.At(st.A, st.B)
			}
		}
		w.objs = append(w.objs, n)
	case "iter":
		n := &obj{k: "i", sparse: o.sparse, ti: o.ti}
		if o.k == "v" {
			switch mv, ok := o.v.(MagicVector); {
			case f%3 == 0 && ok:
				n.vi, n.flavor = mv.MagicIterator(), "MagicIterator"
			case f%3 == 1:
				n.vi, n.flavor = o.v.ConstIterator(), "ConstIterator"
			default:
				n.vi, n.flavor = o.v.Iterator(), "Iterator"
			}
		} else {
			switch mm, ok := o.m.(MagicMatrix); {
			case f%3 == 0 && ok:
				n.mi, n.flavor = mm.MagicIterator(), "MagicIterator"
			case f%3 == 1:
				n.mi, n.flavor = o.m.ConstIterator(), "ConstIterator"
			default:
				n.mi, n.flavor = o.m.Iterator(), "Iterator"
			}
		}
		w.objs = append(w.objs, n)
	case "itclone":
		n := &obj{k: "i", sparse: o.sparse, ti: o.ti, flavor: "Clone*Iterator"}
		if o.vi != nil {
			switch it := o.vi.(type) {
			case VectorMagicIterator:
				n.vi = it.CloneMagicIterator()
			case VectorIterator:
				if c, ok := o.vi.(VectorConstIterator); ok && f%2 == 0 {
					n.vi = c.CloneConstIterator()
				} else {
					n.vi = it.CloneIterator()
				}
			case VectorConstIterator:
				n.vi = it.CloneConstIterator()
			}
		} else {
			switch it := o.mi.(type) {
			case MatrixMagicIterator:
				n.mi = it.CloneMagicIterator()
			case MatrixIterator:
				if c, ok := o.mi.(MatrixConstIterator); ok && f%2 == 0 {
					n.mi = c.CloneConstIterator()
				} else {
					n.mi = it.CloneIterator()
				}
			case MatrixConstIterator:
				n.mi = it.CloneConstIterator()
			}
		}
		w.objs = append(w.objs, n)
	/* probes */
	case "diag":
		var v ConstVector
		if f%2 == 0 {
			v = o.m.Diag()
		} else {
			v = o.m.ConstDiag()
		}
		res = vecValues(v)
	case "asvector":
		var v ConstVector
		if f%2 == 0 {
			v = o.m.AsVector()
		} else {
			v = o.m.AsConstVector()
		}
		res = vecValues(v)
		note = "multiset"
	case "asmatrix":
		var m ConstMatrix
		if f%2 == 0 {
			m = o.v.AsMatrix(st.A, st.B)
		} else {
			m = o.v.AsConstMatrix(st.A, st.B)
		}
		r, c := m.Dims()
		if r != st.A || c != st.B {
			res = []float64{-999}
		} else {
			for i := 0; i < r; i++ {
				for j := 0; j < c; j++ {
					res = append(res, m.ConstAt(i, j).GetFloat64())
				}
			}
		}
	case "constrow":
		res = vecValues(o.m.ConstRow(st.A))
	case "constcol":
		res = vecValues(o.m.ConstCol(st.A))
	/* mutators */
	case "set":
		setPlain(o.at(st.A), st.W, f)
	case "assign":
		assignConst(o.at(st.A), st.W, f)
	case "der":
		ms := o.at(st.A).(MagicScalar)
		ms.SetVariable(0, 2, 2)
		ms.ResetDerivatives()
		ms.SetDerivative(0, float64(st.W))
		ms.SetHessian(0, 1, float64(st.W))
	case "vars":
		var err error
		if o.k == "v" {
			err = o.v.(MagicVector).Variables(2)
		} else {
			err = o.m.(MagicMatrix).Variables(2)
		}
		if err != nil {
			panic("Variables: " + err.Error())
		}
	case "fill":
		r, c := o.dims()
		switch {
		case o.k == "v" && f%3 == 0:
			o.v.Set(constVector(c, st.W))
		case o.k == "v" && f%3 == 1 && !o.sparse:
			o.v.VaddV(constVector(c, st.W-1), constVector(c, 1))
		case o.k == "m" && f%3 == 0 && !o.sparse:
			o.m.Set(constMatrix(r, c, st.W))
		case o.k == "m" && f%3 == 1 && !o.sparse:
			o.m.MaddM(constMatrix(r, c, st.W-1), constMatrix(r, c, 1))
		default:
			for p := 1; p <= r*c; p++ {
				assignConst(o.at(p), st.W, f)
			}
		}
	case "reset":
		switch o.k {
		case "s":
			o.sc.Reset()
		case "v":
			o.v.Reset()
		case "m":
			o.m.Reset()
		}
	case "swap":
		if o.k == "v" {
			o.v.Swap(st.A-1, st.B-1)
		} else {
			_, c := o.m.Dims()
			o.m.Swap((st.A-1)/c, (st.A-1)%c, (st.B-1)/c, (st.B-1)%c)
		}
	case "reverse":
		o.v.ReverseOrder()
	case "sort":
		o.v.Sort(false)
	case "swaprows":
		if err := o.m.SwapRows(st.A, st.B); err != nil {
			panic("SwapRows: " + err.Error())
		}
	case "append":
		if f%2 == 0 {
			o.v = o.v.AppendScalar(NewScalar(typeOf(o.ti), float64(st.W)))
		} else {
			x := newVector(o.ti, o.sparse, 1)
			x.At(0).SetInt(st.W)
			o.v = o.v.AppendVector(x)
		}
	case "itnext":
		if o.vi != nil {
			o.vi.Next()
		} else {
			o.mi.Next()
		}
	case "itset":
		var s Scalar
		if o.vi != nil {
			switch it := o.vi.(type) {
			case VectorMagicIterator:
				s = it.Get()
			case VectorIterator:
				s = it.Get()
			default:
				s = o.vi.GetConst().(Scalar) // a const iterator still denotes the element
			}
		} else {
			switch it := o.mi.(type) {
			case MatrixMagicIterator:
				s = it.GetMagic()
			case MatrixIterator:
				s = it.Get()
			default:
				s = o.mi.GetConst().(Scalar)
			}
		}
		setPlain(s, st.W, f)
	default:
		panic("driver: unknown op " + st.Op)
	}
	return
}

func vecValues(v ConstVector) []float64 {
	r := make([]float64, v.Dim())
	for i := range r {
		r[i] = v.ConstAt(i).GetFloat64()
	}
	return r
}

/* ---------------------------------------------------------------- observation */

// does the real scalar hold the abstract cell (v, d)?   (CopySemantics.tla: DerCode)
func cellDiff(s ConstScalar, v, d int, sparse bool) string {
	if sparse && d%100 == 0 && s != nil && s.GetFloat64() == float64(v) {
		// a sparse container need not store an element that is zero in value and in all derivatives
		// (DESIGN 3.6): once such an element has been dropped, the order/N it reports (also after a
		// later plain write) are those of a constant
		if s.GetOrder() == 0 && s.GetN() == 0 {
			return ""
		}
	}
	if s == nil {
		if v == 0 && d == 0 {
			return ""
		}
		return "nil element"
	}
	if s.GetFloat64() != float64(v) {
		return fmt.Sprintf("value %v want %d", s.GetFloat64(), v)
	}
	if d == 0 {
		if s.GetOrder() != 0 || s.GetN() != 0 {
			return fmt.Sprintf("derivative state order=%d n=%d want a constant", s.GetOrder(), s.GetN())
		}
		return ""
	}
	n, q := d/100, d%100
	if s.GetOrder() != 2 || s.GetN() != n {
		return fmt.Sprintf("derivative state order=%d n=%d want order=2 n=%d", s.GetOrder(), s.GetN(), n)
	}
	for i := 0; i < n; i++ {
		g := 0.0
		if q >= 1 && q <= n && i == q-1 {
			g = 1
		}
		if q > 50 && i == 0 {
			g = float64(q - 50)
		}
		if s.GetDerivative(i) != g {
			return fmt.Sprintf("derivative[%d]=%v want %v", i, s.GetDerivative(i), g)
		}
		for j := 0; j < n; j++ {
			h := 0.0
			if q > 50 && i == 0 && j == 1 {
				h = float64(q - 50)
			}
			if s.GetHessian(i, j) != h {
				return fmt.Sprintf("hessian[%d][%d]=%v want %v", i, j, s.GetHessian(i, j), h)
			}
		}
	}
	return ""
}

// compare one real object with the printed content; "" = equal
func (o *obj) diff(e *content) (what, detail string) {
	r, c := 1, 1
	if o.k != e.K {
		return "kind", o.k + " want " + e.K
	}
	if h, what, detail := o.diffExtra(e); h {
		return what, detail
	}
	switch o.k {
	case "i":
		n := len(e.V)
		ok := e.Pos <= n
		if o.vi != nil {
			if o.vi.Ok() != ok {
				return "iterator", fmt.Sprintf("Ok()=%v want %v (position %d of %d)", o.vi.Ok(), ok, e.Pos, n)
			}
			if ok {
				if o.vi.Index() != e.Pos-1 {
					return "iterator", fmt.Sprintf("Index()=%d want %d", o.vi.Index(), e.Pos-1)
				}
				if d := cellDiff(o.vi.GetConst(), e.V[e.Pos-1], e.D[e.Pos-1], o.sparse); d != "" {
					return "iterator", "GetConst(): " + d
				}
			}
		} else {
			if o.mi.Ok() != ok {
				return "iterator", fmt.Sprintf("Ok()=%v want %v (position %d of %d)", o.mi.Ok(), ok, e.Pos, n)
			}
			if ok {
				i, j := o.mi.Index()
				if i != (e.Pos-1)/e.C || j != (e.Pos-1)%e.C {
					return "iterator", fmt.Sprintf("Index()=(%d,%d) want (%d,%d)", i, j, (e.Pos-1)/e.C, (e.Pos-1)%e.C)
				}
				if d := cellDiff(o.mi.GetConst(), e.V[e.Pos-1], e.D[e.Pos-1], o.sparse); d != "" {
					return "iterator", "GetConst(): " + d
				}
			}
		}
		return "", ""
	case "v":
		c = o.v.Dim()
	case "c", "g":
		c = o.cv.Dim()
	case "m":
		r, c = o.m.Dims()
	}
	if r != e.R || c != e.C {
		return "dims", fmt.Sprintf("%dx%d want %dx%d", r, c, e.R, e.C)
	}
	for p := 1; p <= r*c; p++ {
		if d := cellDiff(o.constAt(p), e.V[p-1], e.D[p-1], o.sparse); d != "" {
			w := "value"
			if strings.HasPrefix(d, "deriv") || strings.HasPrefix(d, "hess") {
				w = "derivative"
			}
			return w, fmt.Sprintf("element %d: %s", p-1, d)
		}
	}
	// iteration sequence: ascending, every non-zero element visited, visited values right
	seen := make([]bool, r*c)
	last := -1
	visit := func(p int, s ConstScalar) string {
		if p < 0 || p >= r*c {
			return fmt.Sprintf("iterator index %d outside the object", p)
		}
		if p <= last {
			return fmt.Sprintf("iterator not ascending at %d", p)
		}
		last = p
		seen[p] = true
		if d := cellDiff(s, e.V[p], e.D[p], o.sparse); d != "" {
			return fmt.Sprintf("iterator at %d: %s", p, d)
		}
		return ""
	}
	n := 0
	if o.k == "v" || o.cv != nil {
		var cv ConstVector = o.cv
		if o.v != nil {
			cv = o.v
		}
		for it := cv.ConstIterator(); it.Ok(); it.Next() {
			if d := visit(it.Index(), it.GetConst()); d != "" {
				return "iteration", d
			}
			if n++; n > r*c {
				return "iteration", "does not terminate"
			}
		}
	} else if o.k == "m" {
		for it := o.m.ConstIterator(); it.Ok(); it.Next() {
			i, j := it.Index()
			if i < 0 || j < 0 || i >= r || j >= c {
				return "iteration", fmt.Sprintf("iterator index (%d,%d) outside the object", i, j)
			}
			if d := visit(i*c+j, it.GetConst()); d != "" {
				return "iteration", d
			}
			if n++; n > r*c {
				return "iteration", "does not terminate"
			}
		}
	}
	if o.k != "s" {
		for p := range seen {
			if !seen[p] && e.V[p] != 0 {
				return "iteration", fmt.Sprintf("non-zero element %d not visited", p)
			}
		}
	}
	return "", ""
}

func (w *world) observe() []vh.M {
	out := []vh.M{}
	for _, o := range w.objs {
		m := vh.M{"k": o.k}
		vh.Try(func() {
			r, c := o.dims()
			vals := []float64{}
			if o.t != nil {
				for it := o.t.Iterator(); it.Ok() && len(vals) < 1000; it.Next() {
					vals = append(vals, float64(it.Get()))
				}
			} else if o.k != "i" {
				for p := 1; p <= r*c; p++ {
					vals = append(vals, o.constAt(p).GetFloat64())
				}
				m["r"], m["c"] = r, c
			}
			m["v"] = vals
		})
		out = append(out, m)
	}
	return out
}

/* ---------------------------------------------------------------- applicability */

// Calls whose behaviour is owned by another property's known finding, or not
// specified for the storage (DESIGN 3.6).  The case is then not executed for
// that instantiation (counted).
//
//   - derivative operations exist for Real element types only;
//   - a SPARSE view (Slice, T) shares the scalars its parent stores at that
//     moment, not the absent cells (C10 known finding "sparse T() is a copy",
//     C11: slices of absent cells), and structural changes of a sparse container
//     are not seen through its views: once such a call has happened the
//     remainder of the history is not compared for sparse instantiations;
//   - sparse Swap with an absent cell (C11 known finding, nil placeholder).
func realOnly(c *tcase) bool {
	for _, st := range c.Steps {
		switch st.Op {
		case "der", "vars", "assign", "grad":
			return true
		}
	}
	return false
}

// deviation potential of the LAST step; base = storage of the first object
func sparseDeviation(c *tcase, base bool) bool {
	if c.Fam == "avl" {
		return false
	}
	n := len(c.Steps)
	sparse := []bool{base}
	group := []int{0}
	view := []bool{false}
	eref := []bool{false}
	add := func(sp bool, g int, v, e bool) {
		sparse, group, view, eref = append(sparse, sp), append(group, g), append(view, v), append(eref, e)
	}
	for _, st := range c.Steps[1 : n-1] {
		s := st.S - 1
		switch st.Op {
		case "clone", "asSame", "asType", "row", "col", "asConst":
			add(sparse[s], len(group), false, false)
		case "grad":
			add(sparse[s], group[s], false, true)
		case "asFlip":
			add(!sparse[s], len(group), false, false)
		case "slice", "mslice", "T":
			add(sparse[s], group[s], true, false)
		case "elem":
			add(sparse[s], group[s], false, true)
		case "iter", "itclone", "jiter":
			add(sparse[s], group[s], false, false)
		}
	}
	last := c.Steps[n-1]
	s := last.S - 1
	if s < 0 || s >= len(sparse) {
		return false
	}
	prev := c.Prev[s]
	anyZero := false
	for _, x := range prev.V {
		if x == 0 {
			anyZero = true
		}
	}
	viewInGroup, erefInGroup, sparseInGroup := false, false, false
	for x := range group {
		if group[x] == group[s] && sparse[x] {
			sparseInGroup = true
			viewInGroup = viewInGroup || view[x]
			erefInGroup = erefInGroup || eref[x]
		}
	}
	if !sparseInGroup {
		return false
	}
	switch last.Op {
	case "elem":
		// a reference to a zero-valued sparse element does not survive the next iteration over the
		// container (iterators drop zero entries): which entries are stored is not specified
		return c.Exp[len(c.Exp)-1].V[0] == 0
	case "vars":
		return anyZero // which entries a sparse container stores (and so turns into variables) is not specified
	case "swap", "swaprows":
		return viewInGroup || anyZero
	case "reverse", "sort":
		return viewInGroup
	case "reset":
		return erefInGroup
	case "set", "assign", "der":
		return (viewInGroup && prev.V[last.A-1] == 0) || (erefInGroup && last.Op == "set" && last.W == 0)
	case "itset":
		return viewInGroup && prev.Pos <= len(prev.V) && prev.V[prev.Pos-1] == 0
	case "fill":
		return viewInGroup && anyZero
	}
	return false
}

func b2i(b bool) int {
	if b {
		return 1
	}
	return 0
}

func stepsKey(steps []step) uint64 {
	h := fnv.New64a()
	for _, st := range steps {
		fmt.Fprintf(h, "%s,%d,%d,%d,%d,%d,%d;", st.Op, st.S, st.A, st.B, st.C, st.D, st.W)
	}
	return h.Sum64()
}

func applicable(c *tcase, in inst) string {
	if c.realOnly && !isReal(in.ti) {
		return "real-only"
	}
	if isReal(in.ti) { // the constant sparse vectors exist for the seven plain element types
		for _, st := range c.Steps {
			if st.Op == "asConst" {
				return "plain-only"
			}
		}
	}
	if c.taint[b2i(in.sparse)] {
		return "sparse-unconstrained"
	}
	return ""
}

/* ---------------------------------------------------------------- replay */

type result struct {
	mismatch []vh.M
	skipped  map[string]int
	runs     int
	steps    int
}

func chain(c *tcase) string {
	ops := []string{}
	for _, st := range c.Steps[1:] {
		ops = append(ops, st.Op)
	}
	return strings.Join(ops, ">")
}

func derivChain(c *tcase) string {
	ops := []string{}
	for _, st := range c.Steps[1:] {
		switch st.Op {
		case "clone", "asSame", "asFlip", "asType", "row", "col", "slice", "mslice", "T", "elem", "iter", "itclone",
			"jiter", "tclone", "titer", "safeiter", "safefrom", "asConst", "grad":
			ops = append(ops, st.Op)
		}
	}
	return strings.Join(ops, ">")
}

func runCase(c *tcase, idx int, in inst, res *result, wd *watch) {
	if why := applicable(c, in); why != "" {
		res.skipped[why]++
		return
	}
	w := &world{rot: idx*18 + in.ti*2 + 1, base: in}
	if in.sparse {
		w.rot++
	}
	last := c.Steps[len(c.Steps)-1]
	sig := vh.M{"engine": "copysem", "part": "A", "op": last.Op, "storage": in.storage(), "elem": typeNames[in.ti],
		"fam": c.Fam, "derives": derivChain(c)}
	wd.begin(c, in)
	defer wd.end()
	var probe []float64
	var note string
	var flavors []string
	msg := vh.Try(func() {
		w.make(c, in)
		for _, st := range c.Steps[1:] {
			probe, note = w.apply(st)
			res.steps++
		}
	})
	res.runs++
	for _, o := range w.objs {
		flavors = append(flavors, o.flavor)
	}
	report := func(what, on string, detail string, x int) {
		s := vh.M{}
		for k, v := range sig {
			s[k] = v
		}
		s["what"], s["seen_on"] = what, on
		res.mismatch = append(res.mismatch, vh.M{"kind": "mismatch", "sig": s,
			"detail": vh.M{"mode": "replay", "case": c, "storage": in.storage(), "elem": typeNames[in.ti], "object": x,
				"why": detail, "observed": w.observe(), "api": flavors}})
	}
	if msg != "" {
		report("panic", "call", msg, 0)
		return
	}
	if len(w.objs) != len(c.Exp) {
		vh.Fatal("driver: object count", len(w.objs), len(c.Exp))
	}
	for x, o := range w.objs {
		var what, detail string
		m := vh.Try(func() { what, detail = o.diff(&c.Exp[x]) })
		if m != "" {
			what, detail = "panic", "observing: "+m
		}
		if what != "" {
			on := "other"
			if x+1 == last.S {
				on = "receiver"
			} else if x+1 == len(w.objs) && len(c.Exp) > 0 && isDerive(last.Op) {
				on = "result"
			}
			report(what, on+":"+o.k+":"+o.flavor, detail, x+1)
			return
		}
	}
	// the whole read API of a freshly derived object
	if isDerive(last.Op) && len(w.objs) == len(c.Exp) {
		x := len(w.objs) - 1
		var what, detail string
		m := vh.Try(func() { what, detail = w.objs[x].deepDiff(&c.Exp[x]) })
		if m != "" {
			what, detail = "panic", "read API: "+m
		}
		if what != "" {
			report(what, "result:"+w.objs[x].k+":"+w.objs[x].flavor, detail, x+1)
			return
		}
	}
	// the share set: storage that objects really have in common vs what the specification allows
	if isDerive(last.Op) || last.Op == "append" {
		if a, b, detail := w.shareDiff(c.Share); detail != "" {
			on := "pair"
			if a >= 1 && b >= 1 {
				on = w.objs[a-1].k + ":" + w.objs[a-1].flavor + "~" + w.objs[b-1].k + ":" + w.objs[b-1].flavor
			}
			report("shares_storage", on, detail, b)
			return
		}
	}
	if len(c.Res) > 0 || len(probe) > 0 {
		ok := len(c.Res) == len(probe)
		if ok && note == "multiset" {
			cnt := map[float64]int{}
			for _, x := range c.Res {
				cnt[float64(x)]++
			}
			for _, x := range probe {
				cnt[x]--
			}
			for _, n := range cnt {
				if n != 0 {
					ok = false
				}
			}
		} else if ok {
			for i := range probe {
				if probe[i] != float64(c.Res[i]) {
					ok = false
				}
			}
		}
		if !ok {
			report("probe", "result", fmt.Sprintf("result %v want %v", probe, c.Res), 0)
		}
	}
}

func isDerive(op string) bool {
	switch op {
	case "clone", "asSame", "asFlip", "asType", "row", "col", "slice", "mslice", "T", "elem", "iter", "itclone",
			"jiter", "tclone", "titer", "safeiter", "safefrom", "asConst", "grad":
		return true
	}
	return false
}

/* watchdog over several workers */
type watch struct {
	mu    sync.Mutex
	cur   interface{}
	in    inst
	start time.Time
	busy  bool
}

func (w *watch) begin(c *tcase, in inst) {
	w.mu.Lock()
	w.cur, w.in, w.start, w.busy = c, in, time.Now(), true
	w.mu.Unlock()
}
func (w *watch) end() {
	w.mu.Lock()
	w.busy = false
	w.mu.Unlock()
}

func instances(fam string, idx int) []inst {
	out := []inst{}
	if fam == "avl" {
		return []inst{{false, 4}} // the index holds ints
	}
	for _, sp := range []bool{false, true} {
		if sp && fam == "sca" {
			continue // scalars have no storage variants
		}
		for ti := 0; ti < 9; ti++ {
			out = append(out, inst{sp, ti})
		}
	}
	return out
}

func replay(casesPath, resultsPath string) {
	out := vh.NewOut(resultsPath)
	nworkers := vh.EnvInt("VERIF_WORKERS", 4)
	type job struct {
		c   *tcase
		idx int
	}
	jobs := make(chan job, 256)
	results := make([]*result, nworkers)
	watches := make([]*watch, nworkers)
	var wg sync.WaitGroup
	for k := 0; k < nworkers; k++ {
		results[k] = &result{skipped: map[string]int{}}
		watches[k] = &watch{}
		wg.Add(1)
		go func(k int) {
			defer wg.Done()
			for j := range jobs {
				for _, in := range instances(j.c.Fam, j.idx) {
					runCase(j.c, j.idx, in, results[k], watches[k])
				}
				if len(results[k].mismatch) > 2000 {
					results[k].mismatch = results[k].mismatch[:2000]
				}
			}
		}(k)
	}
	go func() { // a hang of the library is an observation
		for {
			time.Sleep(2 * time.Second)
			for _, w := range watches {
				w.mu.Lock()
				if w.busy && time.Since(w.start) > 20*time.Second {
					vh.Mismatch(out, vh.M{"engine": "copysem", "part": "A", "what": "timeout", "storage": w.in.storage(), "elem": typeNames[w.in.ti]},
						vh.M{"mode": "replay", "case": w.cur, "storage": w.in.storage(), "elem": typeNames[w.in.ti]})
					vh.Summary(out, vh.M{"aborted": "timeout"})
					out.Close()
					os.Exit(0)
				}
				w.mu.Unlock()
			}
		}
	}()
	ncases := 0
	ops := map[string]int{}
	tainted := [2]map[uint64]bool{map[uint64]bool{}, map[uint64]bool{}}
	err := vh.EachLine(casesPath, func(line []byte) error {
		c := &tcase{}
		if e := json.Unmarshal(line, c); e != nil {
			return e
		}
		ops[c.Steps[len(c.Steps)-1].Op]++
		c.realOnly = realOnly(c)
		if len(c.Steps) > 1 {
			for b := 0; b < 2; b++ {
				c.taint[b] = tainted[b][stepsKey(c.Steps[:len(c.Steps)-1])] || sparseDeviation(c, b == 1)
				if c.taint[b] {
					tainted[b][stepsKey(c.Steps)] = true
				}
			}
		}
		jobs <- job{c, ncases}
		ncases++
		return nil
	})
	close(jobs)
	wg.Wait()
	if err != nil {
		vh.Fatal("cases:", err)
	}
	runs, steps, nm := 0, 0, 0
	skipped := map[string]int{}
	for _, r := range results {
		runs += r.runs
		steps += r.steps
		for k, v := range r.skipped {
			skipped[k] += v
		}
		for _, m := range r.mismatch {
			if nm < 5000 {
				out.Put(m)
			}
			nm++
		}
	}
	vh.Summary(out, vh.M{"cases": ncases, "runs": runs, "steps": steps, "mismatches": nm, "skipped": skipped, "last_ops": ops})
	out.Close()
}

func main() {
	if len(os.Args) < 2 {
		vh.Fatal("usage: copysem replay|record|frame ...")
	}
	switch os.Args[1] {
	case "replay":
		replay(os.Args[2], os.Args[3])
	case "record":
		ntr, _ := strconv.Atoi(os.Args[3])
		nops, _ := strconv.Atoi(os.Args[4])
		record(os.Args[2], ntr, nops)
	case "frame":
		frame(os.Args[2], os.Args[3], os.Args[4])
	default:
		vh.Fatal("unknown sub-command", os.Args[1])
	}
}
