package main

// Joint iterators, the ordered integer index (AvlTree: Clone, SafeIterator,
// SafeIteratorFrom, iterator Clone) and the share-set comparison.

import (
	"fmt"

	. "github.com/pbenner/autodiff"
	"verifharness/vh"
)

type vecJoint interface {
	Ok() bool
	Next()
	Index() int
	GetConst() (ConstScalar, ConstScalar)
}
type matJoint interface {
	Ok() bool
	Next()
	Index() (int, int)
	GetConst() (ConstScalar, ConstScalar)
}

type shareRec struct {
	A   int   `json:"a"`
	B   int   `json:"b"`
	Own []int `json:"own"`
}

// the Go value whose reachable storage is the object's storage
func (o *obj) value() interface{} {
	switch {
	case o.sc != nil:
		return o.sc
	case o.v != nil:
		return o.v
	case o.m != nil:
		return o.m
	case o.vi != nil:
		return o.vi
	case o.mi != nil:
		return o.mi
	case o.vj != nil:
		return o.vj
	case o.mj != nil:
		return o.mj
	case o.ai != nil:
		return o.ai
	case o.t != nil:
		return o.t
	case o.cv != nil:
		return o.cv
	}
	return nil
}

// applyExtra executes the calls of the iterator / index families; handled=false: not one of them
func (w *world) applyExtra(st step, f int) (handled bool) {
	o := w.objs[st.S-1]
	switch st.Op {
	case "jiter":
		b := w.objs[st.A-1]
		n := &obj{k: "i", sparse: o.sparse, ti: o.ti}
		if o.k == "v" {
			if f%2 == 0 {
				n.vj, n.flavor = o.v.JointIterator(b.v), "JointIterator"
			} else {
				n.vj, n.flavor = o.v.ConstJointIterator(b.v), "ConstJointIterator"
			}
		} else {
			n.mj, n.flavor = o.m.JointIterator(b.m), "JointIterator"
		}
		w.objs = append(w.objs, n)
	case "tclone":
		w.objs = append(w.objs, &obj{k: "t", t: o.t.Clone(), ti: o.ti, flavor: "Clone"})
	case "titer":
		w.objs = append(w.objs, &obj{k: "i", ai: o.t.Iterator(), ti: o.ti, flavor: "Iterator"})
	case "safeiter":
		w.objs = append(w.objs, &obj{k: "i", ai: o.t.SafeIterator(), ti: o.ti, flavor: "SafeIterator"})
	case "safefrom":
		w.objs = append(w.objs, &obj{k: "i", ai: o.t.SafeIteratorFrom(st.A), ti: o.ti, flavor: "SafeIteratorFrom"})
	case "tins":
		o.t.Insert(st.W)
	case "tdel":
		o.t.Delete(st.W)
	case "itclone":
		switch {
		case o.vj != nil:
			n := &obj{k: "i", sparse: o.sparse, ti: o.ti, flavor: "Clone*JointIterator"}
			switch it := o.vj.(type) {
			case VectorJointIterator:
				if c, ok := o.vj.(VectorConstJointIterator); ok && f%2 == 0 {
					n.vj = c.CloneConstJointIterator()
				} else {
					n.vj = it.CloneJointIterator()
				}
			case VectorConstJointIterator:
				n.vj = it.CloneConstJointIterator()
			}
			w.objs = append(w.objs, n)
		case o.mj != nil:
			n := &obj{k: "i", sparse: o.sparse, ti: o.ti, flavor: "CloneJointIterator"}
			switch it := o.mj.(type) {
			case MatrixJointIterator:
				n.mj = it.CloneJointIterator()
			case MatrixConstJointIterator:
				n.mj = it.CloneConstJointIterator()
			}
			w.objs = append(w.objs, n)
		case o.ai != nil:
			c := o.ai.Clone()
			w.objs = append(w.objs, &obj{k: "i", ai: &c, ti: o.ti, flavor: "AvlIterator.Clone"})
		default:
			return false
		}
	case "itnext":
		switch {
		case o.vj != nil:
			o.vj.Next()
		case o.mj != nil:
			o.mj.Next()
		case o.ai != nil:
			o.ai.Next()
		default:
			return false
		}
	case "itset":
		var s Scalar
		switch {
		case o.vj != nil:
			switch it := o.vj.(type) {
			case VectorJointIterator:
				s, _ = it.Get()
			default:
				c, _ := o.vj.GetConst()
				s = c.(Scalar)
			}
		case o.mj != nil:
			switch it := o.mj.(type) {
			case MatrixJointIterator:
				s, _ = it.Get()
			default:
				c, _ := o.mj.GetConst()
				s = c.(Scalar)
			}
		default:
			return false
		}
		setPlain(s, st.W, f)
	default:
		return false
	}
	return true
}

// diffExtra compares trees, tree iterators and joint iterators; handled=false: another kind
func (o *obj) diffExtra(e *content) (handled bool, what, detail string) {
	n := len(e.V)
	switch {
	case o.t != nil:
		keys := []int{}
		for it := o.t.Iterator(); it.Ok(); it.Next() {
			keys = append(keys, it.Get())
			if len(keys) > n+8 {
				break
			}
		}
		if fmt.Sprint(keys) != fmt.Sprint(e.V) {
			return true, "value", fmt.Sprintf("keys %v want %v", keys, e.V)
		}
		for _, k := range e.V {
			if o.t.FindNode(k) == nil {
				return true, "value", fmt.Sprintf("key %d not found", k)
			}
		}
		return true, "", ""
	case o.ai != nil:
		ok := e.Pos <= n
		if o.ai.Ok() != ok {
			return true, "iterator", fmt.Sprintf("Ok()=%v want %v (position %d of %d)", o.ai.Ok(), ok, e.Pos, n)
		}
		if ok && o.ai.Get() != e.V[e.Pos-1] {
			return true, "iterator", fmt.Sprintf("Get()=%d want %d", o.ai.Get(), e.V[e.Pos-1])
		}
		// the remainder of the walk, on a clone of the cursor (the cursor itself stays where it is)
		if ok {
			c := o.ai.Clone()
			rest := []int{}
			for ; c.Ok() && len(rest) <= n+8; c.Next() {
				rest = append(rest, c.Get())
			}
			if fmt.Sprint(rest) != fmt.Sprint(e.V[e.Pos-1:]) {
				return true, "iterator", fmt.Sprintf("remaining keys %v want %v", rest, e.V[e.Pos-1:])
			}
			if o.ai.Get() != e.V[e.Pos-1] {
				return true, "iterator", "walking a clone moved the cursor"
			}
		}
		return true, "", ""
	case o.vj != nil || o.mj != nil:
		ok := e.Pos <= n
		var rok bool
		var s1, s2 ConstScalar
		idx := -1
		if o.vj != nil {
			rok = o.vj.Ok()
			if rok {
				idx = o.vj.Index()
				s1, s2 = o.vj.GetConst()
			}
		} else {
			rok = o.mj.Ok()
			if rok {
				i, j := o.mj.Index()
				idx = i*e.C + j
				s1, s2 = o.mj.GetConst()
			}
		}
		if rok != ok {
			return true, "iterator", fmt.Sprintf("joint Ok()=%v want %v (position %d of %d)", rok, ok, e.Pos, n)
		}
		if ok {
			if idx != e.Pos-1 {
				return true, "iterator", fmt.Sprintf("joint Index()=%d want %d", idx, e.Pos-1)
			}
			if d := cellDiff(s1, e.V[e.Pos-1], e.D[e.Pos-1], o.sparse); d != "" {
				return true, "iterator", "joint GetConst() first: " + d
			}
			if s2 == nil || s2.GetFloat64() != float64(e.V2[e.Pos-1]) {
				return true, "iterator", fmt.Sprintf("joint GetConst() second: %v want %d", s2, e.V2[e.Pos-1])
			}
		}
		return true, "", ""
	}
	return false, "", ""
}

// shareDiff: the storage two live objects really have in common must lie inside the storage of
// the objects the specification names (ShareSet of CopySemantics.tla)
func (w *world) shareDiff(share []shareRec) (a, b int, detail string) {
	rs := make([]*reachSet, len(w.objs))
	msg := vh.Try(func() {
		for x, o := range w.objs {
			rs[x] = reach(o.value())
		}
	})
	if msg != "" {
		return 0, 0, "walking the objects: " + msg
	}
	for _, s := range share {
		if s.A > len(rs) || s.B > len(rs) {
			continue
		}
		owners := []*reachSet{}
		for _, x := range s.Own {
			owners = append(owners, rs[x-1])
		}
		for _, sp := range common(rs[s.A-1], rs[s.B-1]) {
			if !covered(sp, owners) {
				return s.A, s.B, fmt.Sprintf("objects %d and %d both reach %s (%d bytes); the contract allows common storage of objects %v only",
					s.A, s.B, sp.path, sp.hi-sp.lo, s.Own)
			}
		}
	}
	return 0, 0, ""
}

// shareLog projects the real share sets for the trace: for every pair of live objects with common
// storage, the objects x whose storage contains ALL of it (the specification must name one of them)
func (w *world) shareLog() []vh.M {
	out := []vh.M{}
	rs := make([]*reachSet, len(w.objs))
	for x, o := range w.objs {
		rs[x] = reach(o.value())
	}
	for a := 0; a < len(rs); a++ {
		for b := a + 1; b < len(rs); b++ {
			cm := common(rs[a], rs[b])
			if len(cm) == 0 {
				continue
			}
			cover := []int{}
			for x := range rs {
				all := true
				for _, sp := range cm {
					if !covered(sp, []*reachSet{rs[x]}) {
						all = false
						break
					}
				}
				if all {
					cover = append(cover, x+1)
				}
			}
			out = append(out, vh.M{"a": a + 1, "b": b + 1, "w": cover, "what": cm[0].path})
		}
	}
	return out
}
