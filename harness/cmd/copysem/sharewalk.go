package main

// The conformance projection "share set": all mutable storage reachable from a
// real object - backing arrays of slices, maps, structs behind pointers,
// including unexported fields (scratch vectors tmp1/tmp2, index trees,
// iterator cursors, derivative slices) - as address ranges.  Two objects share
// storage iff two of their ranges overlap.  CopySemantics.tla says which
// storage two live objects MAY have in common (Uses(a) \cap Uses(b)); the
// driver only computes the real intersection and tests that it lies inside
// the storage of the objects the specification names.
//
// Not storage: functions, channels, strings (immutable), reflect.Type values
// (ScalarType; immutable run-time type descriptors).

import (
	"fmt"
	"reflect"
	"sort"
	"unsafe"
)

type span struct {
	lo, hi uintptr
	path   string
}

type reachSet struct {
	spans []span
	seen  map[visitKey]bool
}

type visitKey struct {
	p uintptr
	t reflect.Type
}

var rtypeIface = reflect.TypeOf((*reflect.Type)(nil)).Elem()

func (r *reachSet) add(p uintptr, size uintptr, path string) {
	if p == 0 || size == 0 {
		return
	}
	r.spans = append(r.spans, span{p, p + size, path})
}

// fieldValue returns an addressable, non read-only view of struct field i
func fieldValue(v reflect.Value, i int) reflect.Value {
	f := v.Field(i)
	return reflect.NewAt(f.Type(), unsafe.Pointer(f.UnsafeAddr())).Elem()
}

func addressable(v reflect.Value) reflect.Value {
	if v.CanAddr() {
		return v
	}
	c := reflect.New(v.Type()).Elem()
	c.Set(v)
	return c
}

func hasPointers(t reflect.Type) bool {
	switch t.Kind() {
	case reflect.Ptr, reflect.Slice, reflect.Map, reflect.Interface, reflect.UnsafePointer:
		return true
	case reflect.Struct:
		for i := 0; i < t.NumField(); i++ {
			if hasPointers(t.Field(i).Type) {
				return true
			}
		}
		return false
	case reflect.Array:
		return hasPointers(t.Elem())
	}
	return false
}

func (r *reachSet) walk(v reflect.Value, path string, depth int) {
	if !v.IsValid() || depth > 200 {
		return
	}
	switch v.Kind() {
	case reflect.Ptr:
		if v.IsNil() {
			return
		}
		if v.Type().Implements(rtypeIface) {
			return
		}
		k := visitKey{v.Pointer(), v.Type()}
		if r.seen[k] {
			return
		}
		r.seen[k] = true
		r.add(v.Pointer(), v.Type().Elem().Size(), path)
		r.walk(v.Elem(), path+"*", depth+1)
	case reflect.Interface:
		if v.IsNil() {
			return
		}
		e := v.Elem()
		if e.Type().Implements(rtypeIface) {
			return
		}
		r.walk(e, path, depth+1)
	case reflect.Slice:
		if v.IsNil() || v.Cap() == 0 {
			return
		}
		es := v.Type().Elem().Size()
		r.add(v.Pointer(), uintptr(v.Cap())*es, path+"[]")
		if hasPointers(v.Type().Elem()) {
			k := visitKey{v.Pointer() ^ (uintptr(v.Len()) << 40), v.Type()}
			if r.seen[k] {
				return
			}
			r.seen[k] = true
			for i := 0; i < v.Len(); i++ {
				r.walk(v.Index(i), fmt.Sprintf("%s[%d]", path, i), depth+1)
			}
		}
	case reflect.Map:
		if v.IsNil() {
			return
		}
		k := visitKey{v.Pointer(), v.Type()}
		if r.seen[k] {
			return
		}
		r.seen[k] = true
		r.add(v.Pointer(), 8, path+"{map}")
		if hasPointers(v.Type().Elem()) || hasPointers(v.Type().Key()) {
			it := v.MapRange()
			for it.Next() {
				r.walk(it.Value(), fmt.Sprintf("%s{%v}", path, it.Key()), depth+1)
			}
		}
	case reflect.Struct:
		if !hasPointers(v.Type()) {
			return
		}
		a := addressable(v)
		for i := 0; i < a.NumField(); i++ {
			if hasPointers(a.Type().Field(i).Type) {
				r.walk(fieldValue(a, i), path+"."+a.Type().Field(i).Name, depth+1)
			}
		}
	case reflect.Array:
		if hasPointers(v.Type().Elem()) {
			for i := 0; i < v.Len(); i++ {
				r.walk(v.Index(i), fmt.Sprintf("%s[%d]", path, i), depth+1)
			}
		}
	}
}

// reach computes the storage reachable from x (any Go value)
func reach(x interface{}) *reachSet {
	r := &reachSet{seen: map[visitKey]bool{}}
	if x == nil {
		return r
	}
	v := reflect.ValueOf(&x).Elem() // interface value, clean flags
	r.walk(v, fmt.Sprintf("%T", x), 0)
	sort.Slice(r.spans, func(i, j int) bool { return r.spans[i].lo < r.spans[j].lo })
	return r
}

// common returns the overlaps of two reach sets as spans of a (with both paths)
func common(a, b *reachSet) []span {
	out := []span{}
	for _, s := range a.spans {
		for _, t := range b.spans {
			if t.lo >= s.hi {
				break // b is sorted by lo
			}
			if t.hi > s.lo {
				lo, hi := s.lo, s.hi
				if t.lo > lo {
					lo = t.lo
				}
				if t.hi < hi {
					hi = t.hi
				}
				out = append(out, span{lo, hi, s.path + " ~ " + t.path})
			}
		}
	}
	return out
}

// covered: is the span inside the storage of one of the given reach sets?
func covered(s span, by []*reachSet) bool {
	for _, r := range by {
		for _, t := range r.spans {
			if t.lo <= s.lo && s.hi <= t.hi {
				return true
			}
		}
	}
	return false
}
