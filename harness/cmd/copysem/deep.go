package main

// Read-only kinds (SparseConst<T>Vector, DenseGradient) and the deep
// observation: a freshly derived object is compared with the content the
// specification printed through the WHOLE read API (Dims, AsVector,
// AsConstVector, T, Row/Col/Diag, ConstRow/ConstCol, AsMatrix, Slice, String,
// Table, MarshalJSON round trip, Equals in both directions, clone of the
// clone), not just element by element.

import (
	"encoding/json"
	"fmt"
	"reflect"
	"sort"

	. "github.com/pbenner/autodiff"
	"verifharness/vh"
)

func asSparseConst(ti int, v ConstVector) ConstVector {
	switch ti {
	case 0:
		return AsSparseConstInt8Vector(v)
	case 1:
		return AsSparseConstInt16Vector(v)
	case 2:
		return AsSparseConstInt32Vector(v)
	case 3:
		return AsSparseConstInt64Vector(v)
	case 4:
		return AsSparseConstIntVector(v)
	case 5:
		return AsSparseConstFloat32Vector(v)
	case 6:
		return AsSparseConstFloat64Vector(v)
	}
	panic("driver: no constant vector type for a real element type")
}

// applyConst executes the calls on the read-only kinds; handled=false: not one of them
func (w *world) applyConst(st step, f int) bool {
	o := w.objs[st.S-1]
	switch {
	case st.Op == "asConst":
		w.objs = append(w.objs, &obj{k: "c", cv: asSparseConst(o.ti, o.v), sparse: true, ti: o.ti, flavor: "AsSparseConstVector"})
	case st.Op == "grad":
		w.objs = append(w.objs, &obj{k: "g", cv: DenseGradient{S: o.sc}, sparse: o.sparse, ti: o.ti, flavor: "DenseGradient"})
	case st.Op == "clone" && o.cv != nil:
		w.objs = append(w.objs, &obj{k: o.k, cv: o.cv.CloneConstVector(), sparse: o.sparse, ti: o.ti, flavor: "CloneConstVector"})
	case st.Op == "iter" && o.cv != nil:
		w.objs = append(w.objs, &obj{k: "i", vi: o.cv.ConstIterator(), sparse: o.sparse, ti: o.ti, flavor: "ConstIterator"})
	default:
		return false
	}
	return true
}

func sameMultiset(a []float64, b []int) bool {
	if len(a) != len(b) {
		return false
	}
	x := append([]float64{}, a...)
	y := make([]float64, len(b))
	for i := range b {
		y[i] = float64(b[i])
	}
	sort.Float64s(x)
	sort.Float64s(y)
	for i := range x {
		if x[i] != y[i] {
			return false
		}
	}
	return true
}

func vecIs(v ConstVector, want []int) string {
	if v.Dim() != len(want) {
		return fmt.Sprintf("dimension %d want %d", v.Dim(), len(want))
	}
	for i, x := range want {
		if v.ConstAt(i).GetFloat64() != float64(x) {
			return fmt.Sprintf("element %d is %v want %d", i, v.ConstAt(i).GetFloat64(), x)
		}
	}
	return ""
}

func matIs(m ConstMatrix, r, c int, at func(i, j int) int) string {
	if a, b := m.Dims(); a != r || b != c {
		return fmt.Sprintf("dimensions %dx%d want %dx%d", a, b, r, c)
	}
	for i := 0; i < r; i++ {
		for j := 0; j < c; j++ {
			if m.ConstAt(i, j).GetFloat64() != float64(at(i, j)) {
				return fmt.Sprintf("element (%d,%d) is %v want %d", i, j, m.ConstAt(i, j).GetFloat64(), at(i, j))
			}
		}
	}
	return ""
}

// deepDiff: every observer of the object must agree with the printed content
func (o *obj) deepDiff(e *content) (what, detail string) {
	plain := true // no derivative information: String / JSON of an independent reference object are comparable
	for _, d := range e.D {
		if d != 0 {
			plain = false
		}
	}
	fail := func(api, d string) (string, string) { return "read_api", api + ": " + d }
	switch {
	case o.m != nil:
		r, c := e.R, e.C
		at := func(i, j int) int { return e.V[i*c+j] }
		if d := vecValues(o.m.AsVector()); !sameMultiset(d, e.V) {
			return fail("AsVector", fmt.Sprintf("%v want the elements %v", d, e.V))
		}
		if d := vecValues(o.m.AsConstVector()); !sameMultiset(d, e.V) {
			return fail("AsConstVector", fmt.Sprintf("%v want the elements %v", d, e.V))
		}
		if d := matIs(o.m.T(), c, r, func(i, j int) int { return at(j, i) }); d != "" {
			return fail("T", d)
		}
		if d := matIs(o.m.ConstSlice(0, r, 0, c), r, c, at); d != "" {
			return fail("ConstSlice", d)
		}
		for i := 0; i < r; i++ {
			if d := vecIs(o.m.Row(i), e.V[i*c:(i+1)*c]); d != "" {
				return fail("Row", d)
			}
			if d := vecIs(o.m.ConstRow(i), e.V[i*c:(i+1)*c]); d != "" {
				return fail("ConstRow", d)
			}
		}
		for j := 0; j < c; j++ {
			col := make([]int, r)
			for i := range col {
				col[i] = at(i, j)
			}
			if d := vecIs(o.m.Col(j), col); d != "" {
				return fail("Col", d)
			}
			if d := vecIs(o.m.ConstCol(j), col); d != "" {
				return fail("ConstCol", d)
			}
		}
		if r == c {
			dg := make([]int, r)
			for i := range dg {
				dg[i] = at(i, i)
			}
			if d := vecIs(o.m.Diag(), dg); d != "" {
				return fail("Diag", d)
			}
			if d := vecIs(o.m.ConstDiag(), dg); d != "" {
				return fail("ConstDiag", d)
			}
		}
		cl := o.m.CloneMatrix()
		if d := matIs(cl, r, c, at); d != "" {
			return fail("CloneMatrix", d)
		}
		if d := vecValues(cl.AsVector()); !sameMultiset(d, e.V) {
			return fail("CloneMatrix.AsVector", fmt.Sprintf("%v want the elements %v", d, e.V))
		}
		ref := newMatrix(o.ti, o.sparse, r, c)
		for i := 0; i < r; i++ {
			for j := 0; j < c; j++ {
				if at(i, j) != 0 {
					ref.At(i, j).SetInt(at(i, j))
				}
			}
		}
		if !o.m.Equals(ref, 1e-12) || !ref.Equals(o.m, 1e-12) {
			return fail("Equals", "not equal to a matrix holding the same elements")
		}
		if plain && !o.sparse {
			if o.m.String() != ref.String() {
				return fail("String", o.m.String()+" want "+ref.String())
			}
			if o.m.Table() != ref.Table() {
				return fail("Table", o.m.Table()+" want "+ref.Table())
			}
		}
		if plain {
			b, err := json.Marshal(o.m)
			if err != nil {
				return fail("MarshalJSON", err.Error())
			}
			back := reflect.New(reflect.TypeOf(o.m).Elem())
			if err := json.Unmarshal(b, back.Interface()); err != nil {
				return fail("MarshalJSON/UnmarshalJSON", err.Error())
			}
			if d := matIs(back.Interface().(ConstMatrix), r, c, at); d != "" {
				return fail("MarshalJSON round trip", d)
			}
		}
	case o.v != nil || o.cv != nil:
		var v ConstVector = o.cv
		if o.v != nil {
			v = o.v
		}
		n := len(e.V)
		if d := vecIs(v, e.V); d != "" {
			return fail("ConstAt", d)
		}
		if d := vecIs(v.CloneConstVector(), e.V); d != "" {
			return fail("CloneConstVector", d)
		}
		if n > 0 {
			// an observer that announces "not implemented" (SparseConst<T>Vector) is loud, not wrong
			d := ""
			if m := vh.Try(func() { d = matIs(v.AsConstMatrix(1, n), 1, n, func(i, j int) int { return e.V[j] }) }); m != "" && m != "not implemented" {
				panic(m)
			}
			if d != "" {
				return fail("AsConstMatrix", d)
			}
			if o.k != "g" { // DenseGradient.ConstSlice is only defined from 0 (information, see docs)
				if m := vh.Try(func() { d = vecIs(v.ConstSlice(n/2, n), e.V[n/2:]) }); m != "" && m != "not implemented" {
					panic(m)
				}
				if d != "" {
					return fail("ConstSlice", d)
				}
			}
		}
		ref := NullDenseFloat64Vector(n)
		for i, x := range e.V {
			ref[i] = float64(x)
		}
		if n > 0 && !v.Equals(ref, 1e-12) {
			return fail("Equals", "not equal to a vector holding the same elements")
		}
		if o.v != nil {
			if n > 0 {
				if d := matIs(o.v.AsMatrix(n, 1), n, 1, func(i, j int) int { return e.V[i] }); d != "" {
					return fail("AsMatrix", d)
				}
				if d := vecIs(o.v.Slice(0, n), e.V); d != "" {
					return fail("Slice", d)
				}
			}
			if d := vecIs(o.v.CloneVector(), e.V); d != "" {
				return fail("CloneVector", d)
			}
			same := newVector(o.ti, o.sparse, n)
			for i, x := range e.V {
				if x != 0 {
					same.At(i).SetInt(x)
				}
			}
			if plain && !o.sparse {
				if o.v.String() != same.String() {
					return fail("String", o.v.String()+" want "+same.String())
				}
				if o.v.Table() != same.Table() {
					return fail("Table", o.v.Table()+" want "+same.Table())
				}
			}
			if plain {
				b, err := json.Marshal(o.v)
				if err != nil {
					return fail("MarshalJSON", err.Error())
				}
				t := reflect.TypeOf(o.v)
				var back reflect.Value
				if t.Kind() == reflect.Ptr {
					back = reflect.New(t.Elem())
				} else {
					back = reflect.New(t)
				}
				if err := json.Unmarshal(b, back.Interface()); err != nil {
					return fail("MarshalJSON/UnmarshalJSON", err.Error())
				}
				var bv ConstVector
				if t.Kind() == reflect.Ptr {
					bv = back.Interface().(ConstVector)
				} else {
					bv = back.Elem().Interface().(ConstVector)
				}
				if d := vecIs(bv, e.V); d != "" {
					return fail("MarshalJSON round trip", d)
				}
			}
		}
	}
	return "", ""
}
