package main

// code -> model: seeded random histories on the real containers, logged for
// spec/CopySemanticsTrace.tla.  The recorder only CHOOSES calls (staying inside
// what the contract constrains, see Legal in CopySemantics.tla and the sparse
// notes in main.go); what the calls must do is decided by TLC on the log.

import (
	"fmt"
	"math/rand"
	"strings"
	"time"

	. "github.com/pbenner/autodiff"
	"verifharness/vh"
)

type meta struct {
	group     int
	ref       bool // created by a reference-class call
	view      bool
	eref      bool
	container int // iterators: index of the container object
}

type recorder struct {
	w    *world
	m    []meta
	base inst
	rng  *rand.Rand
	out  *vh.Out

	derUsed bool
}

// projection of the real derivative state to the code of CopySemantics.tla
func derCode(s ConstScalar, sparse bool) int {
	if s == nil {
		return -2
	}
	n := s.GetN()
	if s.GetOrder() == 0 && n == 0 {
		if sparse {
			return -2 // constant, or an element that was dropped while it was zero (see CellObsOK)
		}
		return 0
	}
	if s.GetOrder() != 2 {
		return -1
	}
	q := -1
	nz := 0
	for i := 0; i < n; i++ {
		for j := 0; j < n; j++ {
			if h := s.GetHessian(i, j); h != 0 {
				if i == 0 && j == 1 && h == s.GetDerivative(0) {
					continue
				}
				return -1
			}
		}
		if g := s.GetDerivative(i); g != 0 {
			nz++
			q = i
		}
	}
	switch {
	case nz == 0:
		return 100 * n
	case nz == 1 && n >= 2 && q == 0 && s.GetHessian(0, 1) == s.GetDerivative(0) && s.GetHessian(0, 1) != 0:
		return 100*n + 50 + int(s.GetDerivative(0))
	case nz == 1 && s.GetDerivative(q) == 1 && (n < 2 || s.GetHessian(0, 1) == 0):
		return 100*n + q + 1
	}
	return -1
}

func isSparseObj(x interface{}) bool { return strings.Contains(fmt.Sprintf("%T", x), "Sparse") }

func (r *recorder) project(x int) vh.M {
	o := r.w.objs[x]
	src := o
	if o.k == "i" {
		src = r.w.objs[r.m[x].container]
	}
	rows, cols := src.dims()
	vals, ders := []int{}, []int{}
	for p := 1; p <= rows*cols; p++ {
		s := src.constAt(p)
		vals = append(vals, int(s.GetFloat64()))
		ders = append(ders, derCode(s, src.sparse))
	}
	var et ScalarType
	sp := false
	switch src.k {
	case "s":
		et = src.sc.Type()
		sp = o.sparse // scalars carry no storage: the book value of the container they came from
	case "v":
		et, sp = src.v.ElementType(), isSparseObj(src.v)
	case "m":
		et, sp = src.m.ElementType(), isSparseObj(src.m)
	}
	pos := 0
	of := ""
	if o.k == "i" {
		of = src.k
		pos = rows*cols + 1
		if o.vi != nil && o.vi.Ok() {
			pos = o.vi.Index() + 1
		}
		if o.mi != nil && o.mi.Ok() {
			i, j := o.mi.Index()
			pos = i*cols + j + 1
		}
	}
	return vh.M{"k": o.k, "of": of, "r": rows, "c": cols, "fl": sp != r.base.sparse, "pt": et != typeOf(r.base.ti),
		"pos": pos, "v": vals, "d": ders, "sp": sp, "v2": []int{}}
}

func (r *recorder) obs() []vh.M {
	out := []vh.M{}
	for x := range r.w.objs {
		out = append(out, r.project(x))
	}
	return out
}

func (r *recorder) values(x int) ([]int, []int) {
	p := r.project(x)
	return p["v"].([]int), p["d"].([]int)
}

func (r *recorder) groupHas(g int, f func(x int) bool) bool {
	for x := range r.m {
		if r.m[x].group == g && f(x) {
			return true
		}
	}
	return false
}

func (r *recorder) anyIter() bool {
	for _, o := range r.w.objs {
		if o.k == "i" {
			return true
		}
	}
	return false
}

// one random call that the contract constrains; ok=false: try again
func (r *recorder) choose() (st step, ok bool) {
	w := r.w
	s := r.rng.Intn(len(w.objs))
	o := w.objs[s]
	m := r.m[s]
	vals, ders := r.values(s)
	n := len(vals)
	rows, cols := o.dims()
	if o.k == "i" {
		rows, cols = w.objs[m.container].dims()
	}
	anyZero, allD0 := false, true
	for p := range vals {
		anyZero = anyZero || vals[p] == 0
		allD0 = allD0 && ders[p] == 0
	}
	realObj := isReal(o.ti) && o.ti == r.base.ti
	lonely := !r.groupHas(m.group, func(x int) bool { return x != s })
	fragile := r.groupHas(m.group, func(x int) bool { return r.m[x].eref || w.objs[x].k == "i" })
	full := len(w.objs) >= 8
	newv := func(p int) int {
		if vals[p-1] == 7 {
			return 8
		}
		return 7
	}
	S := func(op string, a, b, c, d, wv int) (step, bool) { return step{op, s + 1, a, b, c, d, wv}, true }
	var ops []string
	switch o.k {
	case "s":
		ops = []string{"clone", "asType", "set", "set0", "assign", "der", "reset"}
	case "v":
		ops = []string{"clone", "clone", "asSame", "asFlip", "asType", "slice", "slice", "elem", "iter", "asmatrix",
			"set", "set", "set0", "assign", "der", "vars", "fill", "reset", "swap", "reverse", "sort", "append"}
	case "m":
		ops = []string{"clone", "clone", "asSame", "asFlip", "asType", "row", "col", "mslice", "mslice", "T", "T", "elem", "iter",
			"diag", "constrow", "constcol", "set", "set", "set0", "assign", "der", "vars", "fill", "reset", "swap", "swaprows"}
	case "i":
		ops = []string{"itclone", "itnext", "itnext", "itset"}
	}
	op := ops[r.rng.Intn(len(ops))]
	if full && isDerive(op) {
		return st, false
	}
	p := 1
	if n > 0 {
		p = 1 + r.rng.Intn(n)
	}
	switch op {
	case "clone", "asSame", "asFlip":
		return S(op, 0, 0, 0, 0, 0)
	case "asType":
		if allD0 {
			return S(op, 0, 0, 0, 0, 0)
		}
	case "row":
		return S(op, r.rng.Intn(rows), 0, 0, 0, 0)
	case "col":
		return S(op, r.rng.Intn(cols), 0, 0, 0, 0)
	case "slice":
		if !o.sparse && n >= 2 {
			a := r.rng.Intn(n - 1)
			b := a + 1 + r.rng.Intn(n-a)
			if b > n {
				b = n
			}
			return S(op, a, b, 0, 0, 0)
		}
	case "mslice":
		if !o.sparse {
			r0 := r.rng.Intn(rows)
			r1 := r0 + 1 + r.rng.Intn(rows-r0)
			c0 := r.rng.Intn(cols)
			c1 := c0 + 1 + r.rng.Intn(cols-c0)
			return S(op, r0, r1, c0, c1, 0)
		}
	case "T":
		if !o.sparse {
			return S(op, 0, 0, 0, 0, 0)
		}
	case "elem":
		if !o.sparse && n > 0 {
			return S(op, (p-1)/cols, (p-1)%cols, 0, 0, 0)
		}
	case "iter":
		if !anyZero && n > 0 {
			return S(op, 0, 0, 0, 0, 0)
		}
	case "itclone":
		return S(op, 0, 0, 0, 0, 0)
	case "itnext":
		pos := r.project(s)["pos"].(int)
		if pos <= n && !anyZero {
			return S(op, 0, 0, 0, 0, 0)
		}
	case "itset":
		pos := r.project(s)["pos"].(int)
		if pos <= n {
			return S(op, 0, 0, 0, 0, newv(pos))
		}
	case "asmatrix":
		if n > 0 {
			for _, a := range []int{2, 3, 1} {
				if n%a == 0 {
					return S(op, a, n/a, 0, 0, 0)
				}
			}
		}
	case "diag":
		if rows == cols {
			return S(op, 0, 0, 0, 0, 0)
		}
	case "constrow":
		return S(op, r.rng.Intn(rows), 0, 0, 0, 0)
	case "constcol":
		return S(op, r.rng.Intn(cols), 0, 0, 0, 0)
	case "set":
		if n > 0 {
			return S("set", p, 0, 0, 0, newv(p))
		}
	case "set0":
		if n > 0 && !r.anyIter() && vals[p-1] != 0 {
			return S("set", p, 0, 0, 0, 0)
		}
	case "assign":
		if n > 0 && realObj {
			return S(op, p, 0, 0, 0, newv(p))
		}
	case "der":
		if n > 0 && realObj {
			return S(op, p, 0, 0, 0, 1+r.rng.Intn(2))
		}
	case "vars":
		// with a sparse object in the history an all-zero derivative allocation may be observed as a
		// constant, so the observed codes cannot exclude "already allocated with the same N": only
		// before any derivative call then
		anySparse := false
		for _, x := range w.objs {
			anySparse = anySparse || x.sparse
		}
		if realObj && n > 0 && !(o.sparse && anyZero) && !(anySparse && r.derUsed) {
			okv := true
			for _, d := range ders {
				if d != 0 && d/100 == n {
					okv = false
				}
			}
			if okv {
				return S(op, 0, 0, 0, 0, 0)
			}
		}
	case "fill":
		if n > 0 {
			return S(op, 0, 0, 0, 0, 9)
		}
	case "reset":
		if !r.anyIter() {
			return S(op, 0, 0, 0, 0, 0)
		}
	case "swap":
		if n >= 2 && !fragile && !(o.sparse && anyZero) {
			q := 1 + r.rng.Intn(n)
			if q != p {
				return S(op, p, q, 0, 0, 0)
			}
		}
	case "reverse":
		if n >= 2 && !fragile {
			return S(op, 0, 0, 0, 0, 0)
		}
	case "sort":
		if n >= 2 && !fragile {
			seen := map[int]bool{}
			for _, v := range vals {
				if seen[v] {
					return st, false
				}
				seen[v] = true
			}
			return S(op, 0, 0, 0, 0, 0)
		}
	case "swaprows":
		if rows == cols && rows >= 2 && !fragile && !(o.sparse && anyZero) {
			return S(op, 0, rows-1, 0, 0, 0)
		}
	case "append":
		if lonely && !m.ref && n < 8 {
			return S(op, 0, 0, 0, 0, 6)
		}
	}
	return st, false
}

func (r *recorder) book(st step) {
	s := st.S - 1
	if st.Op == "der" || st.Op == "vars" {
		r.derUsed = true
	}
	switch st.Op {
	case "clone", "asSame", "asFlip", "asType", "row", "col":
		r.m = append(r.m, meta{group: len(r.m)})
	case "slice", "mslice", "T":
		r.m = append(r.m, meta{group: r.m[s].group, ref: true, view: true})
	case "elem":
		r.m = append(r.m, meta{group: r.m[s].group, ref: true, eref: true})
	case "iter":
		r.m = append(r.m, meta{group: r.m[s].group, ref: true, container: s})
	case "itclone":
		r.m = append(r.m, meta{group: r.m[s].group, ref: true, container: r.m[s].container})
	}
}

func record(path string, ntr, nops int) {
	seed := vh.EnvInt("VERIF_SEED", 1)
	rng := rand.New(rand.NewSource(int64(seed)*7919 + 12))
	out := vh.NewOut(path)
	zero := step{Op: "make"}
	// a hang of the library (or a walk that does not end on a corrupted structure) is an observation
	wd := vh.NewWatchdog(30*time.Second, out, vh.M{"engine": "copysem", "part": "A", "mode": "record"})
	for t := 0; t < ntr; t++ {
		in := inst{sparse: rng.Intn(3) == 0, ti: []int{6, 8, 7, 5, 4, 0, 8, 6, 1, 2, 3}[rng.Intn(11)]}
		r := &recorder{w: &world{rot: seed*131 + t, base: in}, base: in, rng: rng, out: out}
		fam := []string{"vec", "mat", "mat", "vec", "sca"}[rng.Intn(5)]
		rows, cols := 1, 1
		switch fam {
		case "vec":
			cols = 3 + rng.Intn(4)
		case "mat":
			rows, cols = 2+rng.Intn(2), 2+rng.Intn(3)
		}
		init := make([]int, rows*cols)
		perm := rng.Perm(rows * cols)
		nz := rng.Intn(3) == 0 // one history in three without zero cells (iterators)
		for p := range init {
			init[p] = perm[p] + 1
			if !nz && rng.Intn(3) == 0 {
				init[p] = 0
			}
		}
		if fam == "sca" {
			init[0] = 3
		}
		c := &tcase{Fam: fam, Init: init, Steps: []step{{Op: "make", A: rows, B: cols}}}
		var msg string
		msg = vh.Try(func() { r.w.make(c, in) })
		r.m = []meta{{group: 0}}
		desc := fmt.Sprintf("%s/%s", in.storage(), typeNames[in.ti])
		if msg != "" {
			vh.Mismatch(out, vh.M{"engine": "copysem", "part": "A", "op": "make", "what": "panic", "storage": in.storage(), "elem": typeNames[in.ti]},
				vh.M{"mode": "record", "why": msg})
			continue
		}
		out.Put(vh.M{"e": "make", "k": r.w.objs[0].k, "r": rows, "c": cols, "vals": init, "st": zero, "res": []int{}, "obs": r.obs(), "sh": []vh.M{}, "inst": desc, "t": t})
		for i := 0; i < nops; i++ {
			var st step
			ok := false
			for try := 0; try < 50 && !ok; try++ {
				st, ok = r.choose()
			}
			if !ok {
				break
			}
			var probe []float64
			wd.Begin(vh.M{"trace": t, "seed": seed, "step": st, "inst": desc})
			msg = vh.Try(func() { probe, _ = r.w.apply(st) })
			if msg != "" {
				vh.Mismatch(out, vh.M{"engine": "copysem", "part": "A", "op": st.Op, "what": "panic", "storage": in.storage(), "elem": typeNames[in.ti], "mode": "record"},
					vh.M{"mode": "record", "why": msg, "step": st, "trace": t, "seed": seed})
				break
			}
			r.book(st)
			res := []int{}
			for _, x := range probe {
				res = append(res, int(x))
			}
			var ob []vh.M
			msg = vh.Try(func() { ob = r.obs() })
			if msg != "" {
				vh.Mismatch(out, vh.M{"engine": "copysem", "part": "A", "op": st.Op, "what": "panic", "storage": in.storage(), "elem": typeNames[in.ti], "mode": "record"},
					vh.M{"mode": "record", "why": "observing: " + msg, "step": st, "trace": t, "seed": seed})
				break
			}
			sh := []vh.M{}
			if isDerive(st.Op) || st.Op == "append" {
				msg = vh.Try(func() { sh = r.w.shareLog() })
				if msg != "" {
					vh.Fatal("recorder: walking objects:", msg)
				}
			}
			out.Put(vh.M{"e": "call", "k": "", "r": 0, "c": 0, "vals": []int{}, "st": st, "res": res, "obs": ob, "sh": sh, "inst": desc, "t": t})
			wd.End()
		}
	}
	out.Close()
}
