// Conformance driver for hidden Markov models and mixtures (C15).
//
//	hmm replay <cases.ndjson> <results.ndjson> [hmm|mix]
//	    executes TLC-generated cases (spec/HMM.tla, spec/Mixture.tla): builds the
//	    REAL models through the public constructors, calls LogPdf,
//	    PosteriorMarginals, Posterior, Viterbi, ForwardBackward, one Baum-Welch
//	    step (the float64-specialised forward-backward recursion) and the
//	    wrappers, and compares every result with the exact rationals TLC printed.
//	    The driver computes no expectation of its own: it only divides/takes
//	    logarithms of the printed integers.
//	hmm record <trace.ndjson> <ntrials>
//	    seeded random models, one event per library call with the results as
//	    fixed-point integers; validated afterwards by spec/HMMTrace.tla.
package main

import (
	"encoding/json"
	"fmt"
	"math"
	"math/rand"
	"os"
	"runtime"
	"strconv"
	"sync"
	"sync/atomic"
	"time"

	. "github.com/pbenner/autodiff"
	. "github.com/pbenner/autodiff/statistics"
	"github.com/pbenner/autodiff/statistics/generic"
	"github.com/pbenner/autodiff/statistics/matrixDistribution"
	"github.com/pbenner/autodiff/statistics/scalarDistribution"
	"github.com/pbenner/autodiff/statistics/vectorClassifier"
	"github.com/pbenner/autodiff/statistics/vectorDistribution"
	"github.com/pbenner/threadpool"
	"verifharness/vh"
)

const tol = 1e-9
const tolNewton = 1e-6 // constrained HMM: rows are normalised by a Newton iteration with epsilon 1e-8

// ---------------------------------------------------------------- case format

type rat [2]int64

type qCase struct {
	Q [][]int `json:"q"`
	P int64   `json:"p"`
}
type seqCase struct {
	X    []int     `json:"x"`
	Zero bool      `json:"zero"`
	Mech bool      `json:"mech"`
	Lik  rat       `json:"lik"`
	L    int64     `json:"L"`
	Marg [][]int64 `json:"marg"`
	Qs   []qCase   `json:"qs"`
	Vit  struct {
		W    rat   `json:"w"`
		Set  []int `json:"set"`
		Mech []int `json:"mech"`
	} `json:"vit"`
	Cls struct {
		S []int   `json:"s"`
		P []int64 `json:"p"`
	} `json:"cls"`
	Xi [][]int64 `json:"xi"`
}
type hmmCase struct {
	M     int       `json:"m"`
	Pi    []int     `json:"pi"`
	Tr    [][]int   `json:"tr"`
	Smap  []int     `json:"smap"`
	Em    [][]int   `json:"em"`
	Eden  int       `json:"eden"`
	Start []int     `json:"start"`
	Final []int     `json:"final"`
	Seqs  []seqCase `json:"seqs"`
}

type subCase struct {
	S       []int `json:"s"`
	PostDef bool  `json:"postdef"`
	Post    rat   `json:"post"`
	LikDef  bool  `json:"likdef"`
	Lik     rat   `json:"lik"`
}
type mixCase struct {
	K       int       `json:"k"`
	W       []int     `json:"w"`
	Em      [][]int   `json:"em"`
	Eden    int       `json:"eden"`
	X       []int     `json:"x"`
	Zero    bool      `json:"zero"`
	Lik     rat       `json:"lik"`
	Subsets []subCase `json:"subsets"`
}

// ---------------------------------------------------------------- helpers

type styp struct {
	name string
	t    ScalarType
}

var f64 = styp{"f64", Float64Type}
var r64 = styp{"r64", Real64Type}

func mkVec(t styp, v []float64) Vector {
	if t.name == "r64" {
		return NewDenseReal64Vector(v)
	}
	return NewDenseFloat64Vector(v)
}
func mkMat(t styp, v []float64, r, c int) Matrix {
	if t.name == "r64" {
		return NewDenseReal64Matrix(v, r, c)
	}
	return NewDenseFloat64Matrix(v, r, c)
}
func floats(a []int) []float64 {
	r := make([]float64, len(a))
	for i, x := range a {
		r[i] = float64(x)
	}
	return r
}
func minus1(a []int) []int {
	r := make([]int, len(a))
	for i, x := range a {
		r[i] = x - 1
	}
	return r
}
func isIdentity(a []int) bool {
	for i, x := range a {
		if x != i+1 {
			return false
		}
	}
	return true
}
func maxInt(a []int) int {
	r := a[0]
	for _, x := range a {
		if x > r {
			r = x
		}
	}
	return r
}

// logRatio = log(num/den); num = 0 gives -Inf
func logRatio(num, den int64) float64 {
	if num == 0 {
		return math.Inf(-1)
	}
	return math.Log(float64(num)) - math.Log(float64(den))
}

// closeLog: |got - want| <= tol (1 + |want|), want = -Inf demands exactly -Inf
func closeLog(got, want, tl float64) bool {
	if math.IsNaN(got) {
		return false
	}
	if math.IsInf(want, -1) {
		return math.IsInf(got, -1)
	}
	return math.Abs(got-want) <= tl*(1+math.Abs(want))
}

// closeProb compares a probability (not a logarithm)
func closeProb(got float64, num, den int64, tl float64) bool {
	if math.IsNaN(got) {
		return false
	}
	want := float64(num) / float64(den)
	return math.Abs(got-want) <= tl*(1+want)
}

// harness-implemented data record: arbitrary emission table
type tableRec struct {
	logE [][]float64 // class x symbol
	x    []int
	base int
}

func (r tableRec) MapIndex(k int) int { return r.base + k }
func (r tableRec) GetN() int          { return len(r.x) }
func (r tableRec) LogPdf(s Scalar, c, k int) error {
	s.SetFloat64(r.logE[c][r.x[k]])
	return nil
}

type tableSet struct {
	recs []tableRec
	n    int
}

func (d *tableSet) GetRecord(i int) generic.HmmDataRecord { return d.recs[i] }
func (d *tableSet) GetNMapped() int                        { return d.n }
func (d *tableSet) GetNRecords() int                       { return len(d.recs) }
func (d *tableSet) GetN() int                              { return d.n }

type mixRec struct{ logp []float64 }

func (r mixRec) LogPdf(s Scalar, c int) error { s.SetFloat64(r.logp[c]); return nil }

// data record that evaluates a clone of the mixture after it has delivered its own value
type reentrantRec struct {
	logp  []float64
	clone *generic.Mixture
	t     styp
}

func (r reentrantRec) LogPdf(s Scalar, c int) error {
	s.SetFloat64(r.logp[c])
	tmp := NewScalar(r.t.t, 0.0)
	inner := mixRec{r.logp}
	r.clone.LogPdf(tmp, inner)
	r.clone.Posterior(tmp, inner, []int{0})
	r.clone.Likelihood(tmp, inner, []int{0})
	return nil
}

func logTable(em [][]int, eden int) [][]float64 {
	r := make([][]float64, len(em))
	for c := range em {
		r[c] = make([]float64, len(em[c]))
		for s := range em[c] {
			r[c][s] = logRatio(int64(em[c][s]), int64(eden))
		}
	}
	return r
}

// ---------------------------------------------------------------- building models

func flatTr(c *hmmCase) []float64 {
	v := make([]float64, 0, c.M*c.M)
	for i := 0; i < c.M; i++ {
		v = append(v, floats(c.Tr[i])...)
	}
	return v
}

// generic.Hmm through the public constructors; variant 1 sets the final states
// first and works on a Clone (Clone must preserve the restrictions)
func buildGeneric(c *hmmCase, t styp, variant int) (*generic.Hmm, error) {
	p, err := generic.NewHmmProbabilityVector(mkVec(t, floats(c.Pi)), false)
	if err != nil {
		return nil, err
	}
	tr, err := generic.NewHmmTransitionMatrix(mkMat(t, flatTr(c), c.M, c.M), false)
	if err != nil {
		return nil, err
	}
	var smap []int
	if !(isIdentity(c.Smap) && variant == 0) {
		smap = minus1(c.Smap)
	}
	h, err := generic.NewHmm(p, tr, smap)
	if err != nil {
		return nil, err
	}
	if err := restrict(h, c, variant); err != nil {
		return nil, err
	}
	if variant == 1 {
		h = h.Clone()
	}
	return h, nil
}

type restrictable interface {
	SetStartStates([]int) error
	SetFinalStates([]int) error
}

func restrict(h restrictable, c *hmmCase, variant int) error {
	if variant == 1 {
		if len(c.Final) > 0 {
			if err := h.SetFinalStates(minus1(c.Final)); err != nil {
				return err
			}
		}
		if len(c.Start) > 0 {
			if err := h.SetStartStates(minus1(c.Start)); err != nil {
				return err
			}
		}
		return nil
	}
	if len(c.Start) > 0 {
		if err := h.SetStartStates(minus1(c.Start)); err != nil {
			return err
		}
	}
	if len(c.Final) > 0 {
		if err := h.SetFinalStates(minus1(c.Final)); err != nil {
			return err
		}
	}
	return nil
}

func categoricals(c *hmmCase, t styp) ([]ScalarPdf, error) {
	k := maxInt(c.Smap)
	ed := make([]ScalarPdf, k)
	for j := 0; j < k; j++ {
		th := make([]float64, len(c.Em[j]))
		for s := range th {
			th[s] = float64(c.Em[j][s]) / float64(c.Eden)
		}
		d, err := scalarDistribution.NewCategoricalDistribution(mkVec(t, th))
		if err != nil {
			return nil, err
		}
		ed[j] = d
	}
	return ed, nil
}

// ---------------------------------------------------------------- reporting

type reporter struct {
	out  *vh.Out
	nmis int64
	ncmp int64
	// vacuity accounting: how often the interesting features occur in the replayed cases
	feat [12]int64
	// the library's Viterbi path is in the arg-max set but differs from the path of the
	// specification's mechanism layer (tie broken differently): information, never a verdict
	drift int64
}

const (
	fStart = iota
	fFinal
	fMap
	fZeroSeq
	fTie
	fTwoSeqs
	fLen1
	fZeroWeight
	fZeroPosterior
	fThreeStates
	fBaumWelch
	fZeroEmission
)

var featNames = []string{"start_restricted", "final_restricted", "state_map_not_identity", "zero_likelihood_sequence",
	"viterbi_tie", "two_sequences", "length_one", "zero_transition_or_initial_weight", "zero_posterior_query",
	"three_or_more_states", "baum_welch_step_compared", "zero_emission"}

func (r *reporter) count(f int) { atomic.AddInt64(&r.feat[f], 1) }
func (r *reporter) features() vh.M {
	m := vh.M{}
	for i, n := range featNames {
		m[n] = atomic.LoadInt64(&r.feat[i])
	}
	return m
}

func accountHmm(r *reporter, c *hmmCase) {
	if len(c.Start) > 0 {
		r.count(fStart)
	}
	if len(c.Final) > 0 {
		r.count(fFinal)
	}
	if !isIdentity(c.Smap) {
		r.count(fMap)
	}
	if len(c.Seqs) > 1 {
		r.count(fTwoSeqs)
	}
	if c.M >= 3 {
		r.count(fThreeStates)
	}
	zw := false
	for _, w := range c.Pi {
		zw = zw || w == 0
	}
	for _, row := range c.Tr {
		for _, w := range row {
			zw = zw || w == 0
		}
	}
	if zw {
		r.count(fZeroWeight)
	}
	ze := false
	for _, row := range c.Em {
		for _, w := range row {
			ze = ze || w == 0
		}
	}
	if ze {
		r.count(fZeroEmission)
	}
	for _, s := range c.Seqs {
		if s.Zero {
			r.count(fZeroSeq)
			continue
		}
		if len(s.Vit.Set) > 1 {
			r.count(fTie)
		}
		if len(s.X) == 1 {
			r.count(fLen1)
		}
		for _, q := range s.Qs {
			if q.P == 0 {
				r.count(fZeroPosterior)
				break
			}
		}
	}
}

func (r *reporter) mismatch(sig vh.M, detail vh.M) {
	n := atomic.AddInt64(&r.nmis, 1)
	if n <= 400 {
		vh.Mismatch(r.out, sig, detail)
	}
}

type ctxHmm struct {
	rep  *reporter
	c    *hmmCase
	impl string
	typ  string
	tl   float64
	hist *histRef // set when the call is part of a history on one object (hist.go)
}

func (x *ctxHmm) sig(op, what string) vh.M {
	smap := "map"
	if isIdentity(x.c.Smap) {
		smap = "id"
	}
	sg := vh.M{"engine": "hmm", "impl": x.impl, "type": x.typ, "op": op, "what": what,
		"start": len(x.c.Start) > 0, "final": len(x.c.Final) > 0, "smap": smap}
	if x.hist != nil {
		sg["history"] = true
	}
	return sg
}
func (x *ctxHmm) fail(op, what string, si int, exp, got interface{}) {
	x.rep.mismatch(x.sig(op, what), x.hist.detail(vh.M{"mode": "replay", "kind": "hmm", "case": x.c, "seq": si, "expected": exp, "observed": got}))
}
func fl(v float64) interface{} {
	if math.IsNaN(v) {
		return "NaN"
	}
	if math.IsInf(v, 1) {
		return "+Inf"
	}
	if math.IsInf(v, -1) {
		return "-Inf"
	}
	return v
}

// the four inference entry points shared by generic.Hmm and its wrappers
type inferer interface {
	logPdf() (float64, error)
	marginals() ([]Vector, error)
	posterior(q [][]int) (float64, error)
	viterbi() ([]int, error)
}

type genInf struct {
	h   *generic.Hmm
	rec generic.HmmDataRecord
	t   styp
}

func (g genInf) logPdf() (float64, error) {
	r := NewScalar(g.t.t, 0.0)
	err := g.h.LogPdf(r, g.rec)
	return r.GetFloat64(), err
}
func (g genInf) marginals() ([]Vector, error) { return g.h.PosteriorMarginals(g.rec) }
func (g genInf) posterior(q [][]int) (float64, error) {
	r := NewScalar(g.t.t, 0.0)
	err := g.h.Posterior(r, g.rec, q)
	return r.GetFloat64(), err
}
func (g genInf) viterbi() ([]int, error) { return g.h.Viterbi(g.rec) }

type vecInf struct {
	h *vectorDistribution.Hmm
	x ConstVector
	t styp
}

func (g vecInf) logPdf() (float64, error) {
	r := NewScalar(g.t.t, 0.0)
	err := g.h.LogPdf(r, g.x)
	return r.GetFloat64(), err
}
func (g vecInf) marginals() ([]Vector, error) { return g.h.PosteriorMarginals(g.x) }
func (g vecInf) posterior(q [][]int) (float64, error) {
	r := NewScalar(g.t.t, 0.0)
	err := g.h.Posterior(r, g.x, q)
	return r.GetFloat64(), err
}
func (g vecInf) viterbi() ([]int, error) { return g.h.Viterbi(g.x) }

type matInf struct {
	h *matrixDistribution.Hmm
	x ConstMatrix
	t styp
}

func (g matInf) logPdf() (float64, error) {
	r := NewScalar(g.t.t, 0.0)
	err := g.h.LogPdf(r, g.x)
	return r.GetFloat64(), err
}
func (g matInf) marginals() ([]Vector, error) { return g.h.PosteriorMarginals(g.x) }
func (g matInf) posterior(q [][]int) (float64, error) {
	r := NewScalar(g.t.t, 0.0)
	err := g.h.Posterior(r, g.x, q)
	return r.GetFloat64(), err
}
func (g matInf) viterbi() ([]int, error) { return g.h.Viterbi(g.x) }

func pathIndex(p []int, m int) int { // 0-based states -> number of the path in TLC's numbering (1-based)
	k := 0
	mul := 1
	for _, s := range p {
		k += s * mul
		mul *= m
	}
	return k + 1
}

// checkInference compares LogPdf / PosteriorMarginals / Posterior / Viterbi with the contract
func checkInference(x *ctxHmm, si int, inf inferer, full bool) {
	s := &x.c.Seqs[si]
	m := x.c.M
	n := len(s.X)
	atomic.AddInt64(&x.rep.ncmp, 1)
	lp, err := inf.logPdf()
	if s.Zero {
		// every hidden path has probability zero: -Inf or an error, nothing else is demanded
		if err == nil && !math.IsInf(lp, -1) {
			x.fail("LogPdf", "zero", si, "-Inf or error", fl(lp))
		}
		return
	}
	want := logRatio(s.Lik[0], s.Lik[1])
	if err != nil {
		x.fail("LogPdf", "error", si, want, err.Error())
		return
	}
	if !closeLog(lp, want, x.tl) {
		x.fail("LogPdf", "value", si, want, fl(lp))
		return
	}
	// posterior marginals
	g, err := inf.marginals()
	if err != nil {
		x.fail("PosteriorMarginals", "error", si, "marginals", err.Error())
		return
	}
	if len(g) != m {
		x.fail("PosteriorMarginals", "shape", si, m, len(g))
		return
	}
	for t := 0; t < n; t++ {
		sum := 0.0
		for i := 0; i < m; i++ {
			if g[i].Dim() != n {
				x.fail("PosteriorMarginals", "shape", si, n, g[i].Dim())
				return
			}
			v := g[i].At(t).GetFloat64()
			w := logRatio(s.Marg[t][i], s.L)
			if !closeLog(v, w, x.tl) {
				x.fail("PosteriorMarginals", "value", si, vh.M{"t": t + 1, "state": i + 1, "log": fl(w)}, fl(v))
				return
			}
			sum += math.Exp(v)
		}
		if math.Abs(sum-1) > 1e-9 {
			x.fail("PosteriorMarginals", "sum", si, 1.0, fl(sum))
			return
		}
	}
	// Viterbi: any member of the arg-max set
	p, err := inf.viterbi()
	if err != nil {
		x.fail("Viterbi", "error", si, s.Vit.Set, err.Error())
		return
	}
	okp := len(p) == n
	for _, st := range p {
		if st < 0 || st >= m {
			okp = false
		}
	}
	if !okp {
		x.fail("Viterbi", "shape", si, s.Vit.Set, p)
		return
	}
	k := pathIndex(p, m)
	member := false
	for _, e := range s.Vit.Set {
		if e == k {
			member = true
		}
	}
	if !member {
		x.fail("Viterbi", "not_argmax", si, vh.M{"argmax_paths": s.Vit.Set, "max": s.Vit.W}, vh.M{"path": p, "index": k})
		return
	}
	if len(s.Vit.Mech) == n && k != pathIndex(minus1(s.Vit.Mech), m) {
		atomic.AddInt64(&x.rep.drift, 1)
	}
	if !full {
		return
	}
	// posteriors of state-set sequences
	for _, q := range s.Qs {
		qq := make([][]int, len(q.Q))
		for t := range q.Q {
			qq[t] = minus1(q.Q[t])
		}
		v, err := inf.posterior(qq)
		w := logRatio(q.P, s.L)
		if err != nil {
			x.fail("Posterior", "error", si, vh.M{"q": q.Q, "log": fl(w)}, err.Error())
			return
		}
		if !closeLog(v, w, x.tl) {
			x.fail("Posterior", "value", si, vh.M{"q": q.Q, "log": fl(w)}, fl(v))
			return
		}
	}
}

// generic forward/backward tables: alpha(i,t) * beta(i,t) = P(y_t = i, x)
func checkForwardBackward(x *ctxHmm, si int, h *generic.Hmm, rec generic.HmmDataRecord) {
	s := &x.c.Seqs[si]
	if s.Zero {
		return
	}
	m := x.c.M
	n := len(s.X)
	al, be, err := h.ForwardBackward(rec)
	if err != nil {
		x.fail("ForwardBackward", "error", si, "tables", err.Error())
		return
	}
	ll := logRatio(s.Lik[0], s.Lik[1])
	tot := math.Inf(-1)
	for i := 0; i < m; i++ {
		for t := 0; t < n; t++ {
			v := al.At(i, t).GetFloat64() + be.At(i, t).GetFloat64()
			w := logRatio(s.Marg[t][i], s.L) + ll
			if !closeLog(v, w, x.tl) {
				x.fail("ForwardBackward", "value", si, vh.M{"t": t + 1, "state": i + 1, "log_alpha_beta": fl(w)}, fl(v))
				return
			}
		}
		a := al.At(i, n-1).GetFloat64()
		if !math.IsInf(a, -1) {
			if math.IsInf(tot, -1) {
				tot = a
			} else {
				mx, mn := math.Max(tot, a), math.Min(tot, a)
				tot = mx + math.Log1p(math.Exp(mn-mx))
			}
		}
	}
	if !closeLog(tot, ll, x.tl) {
		x.fail("ForwardBackward", "alpha_sum", si, ll, fl(tot))
	}
}

// ---------------------------------------------------------------- Baum-Welch step = float64-specialised recursion

type bwCore struct {
	hmm1, hmm2 *generic.Hmm
	data       *tableSet
	gamma      [][]float64
	err        error
}

func (c *bwCore) EvaluateLogPdf(pool threadpool.ThreadPool) error { return nil }
func (c *bwCore) GetBasicHmm() generic.BasicHmm                   { return c.hmm1 }
func (c *bwCore) Swap()                                           { c.hmm1, c.hmm2 = c.hmm2, c.hmm1 }
func (c *bwCore) Step(meta ConstVector, tmp []generic.BaumWelchTmp, p threadpool.ThreadPool) (float64, error) {
	return c.hmm1.BaumWelchStep(c.hmm1, c.hmm2, c.data, meta, tmp, p)
}
func (c *bwCore) Emissions(gamma []DenseFloat64Vector, p threadpool.ThreadPool) error {
	c.gamma = make([][]float64, len(gamma))
	for i := range gamma {
		c.gamma[i] = make([]float64, gamma[i].Dim())
		for l := range c.gamma[i] {
			c.gamma[i][l] = gamma[i].At(l).GetFloat64()
		}
	}
	return nil
}

type bwResult struct {
	lik   float64
	gamma [][]float64
	pi    []float64
	tr    [][]float64
}

func runBaumWelch(c *hmmCase, h *generic.Hmm, logE [][]float64) (*bwResult, error) {
	ds := &tableSet{}
	nmax := 0
	for _, s := range c.Seqs {
		ds.recs = append(ds.recs, tableRec{logE, s.X, ds.n})
		ds.n += len(s.X)
		if len(s.X) > nmax {
			nmax = len(s.X)
		}
	}
	core := &bwCore{hmm1: h.Clone(), hmm2: h.Clone(), data: ds}
	res := &bwResult{lik: math.NaN()}
	hook := generic.BaumWelchHook{Value: func(hmm generic.BasicHmm, i int, likelihood, epsilon float64) {
		if i == 1 {
			res.lik = likelihood
		}
	}}
	pool := threadpool.New(1, 1)
	err := generic.BaumWelchAlgorithm(core, nil, len(ds.recs), nmax, ds.n, c.M, maxInt(c.Smap), 0.0, 1, pool, hook)
	if err != nil {
		return nil, err
	}
	res.gamma = core.gamma
	nh := core.hmm1
	for i := 0; i < c.M; i++ {
		res.pi = append(res.pi, nh.Pi.At(i).GetFloat64())
		row := make([]float64, c.M)
		for j := 0; j < c.M; j++ {
			row[j] = nh.Tr.At(i, j).GetFloat64()
		}
		res.tr = append(res.tr, row)
	}
	return res, nil
}

// The re-estimates after one step are functions of the forward and backward
// tables of the float64-specialised recursion:
//   likelihood      = SUM_r log P(x_r)
//   gamma[c][l]     = log SUM_{i : smap(i) = c} P(y_t = i | x_r)        (l = position t of record r)
//   Pi'(i)          = SUM_r P(y_1 = i | x_r) / R
//   Tr'(i,j)        = SUM_r xi_r(i,j) / SUM_j SUM_r xi_r(i,j)           (rows with zero sum are not compared)
// with the posteriors and expected transition counts xi printed by TLC.
func checkBaumWelch(x *ctxHmm, h *generic.Hmm, logE [][]float64) {
	c := x.c
	for _, s := range c.Seqs {
		if s.Zero {
			return
		}
	}
	atomic.AddInt64(&x.rep.ncmp, 1)
	x.rep.count(fBaumWelch)
	res, err := runBaumWelch(c, h, logE)
	if len(c.Final) > 1 {
		if err == nil {
			x.fail("BaumWelchStep", "no_error", -1, "error: more than one final state", "nil")
		}
		return
	}
	if err != nil {
		x.fail("BaumWelchStep", "error", -1, "one step", err.Error())
		return
	}
	want := 0.0
	for _, s := range c.Seqs {
		want += logRatio(s.Lik[0], s.Lik[1])
	}
	if !closeLog(res.lik, want, x.tl) {
		x.fail("BaumWelchStep", "likelihood", -1, want, fl(res.lik))
		return
	}
	k := maxInt(c.Smap)
	if len(res.gamma) != k {
		x.fail("BaumWelchStep", "gamma_shape", -1, k, len(res.gamma))
		return
	}
	l := 0
	for si, s := range c.Seqs {
		for t := range s.X {
			for cl := 0; cl < k; cl++ {
				var num int64
				for i := 0; i < c.M; i++ {
					if c.Smap[i] == cl+1 {
						num += s.Marg[t][i]
					}
				}
				w := logRatio(num, s.L)
				v := res.gamma[cl][l]
				if !closeLog(v, w, x.tl) {
					x.fail("BaumWelchStep", "gamma", si, vh.M{"t": t + 1, "class": cl + 1, "log": fl(w)}, fl(v))
					return
				}
			}
			l++
		}
	}
	R := float64(len(c.Seqs))
	for i := 0; i < c.M; i++ {
		p := 0.0
		for _, s := range c.Seqs {
			p += float64(s.Marg[0][i]) / float64(s.L)
		}
		p /= R
		w := math.Inf(-1)
		if p > 0 {
			w = math.Log(p)
		}
		if !closeLog(res.pi[i], w, x.tl) {
			x.fail("BaumWelchStep", "pi", -1, vh.M{"state": i + 1, "log": fl(w)}, fl(res.pi[i]))
			return
		}
	}
	for i := 0; i < c.M; i++ {
		row := make([]float64, c.M)
		sum := 0.0
		for j := 0; j < c.M; j++ {
			for _, s := range c.Seqs {
				row[j] += float64(s.Xi[i][j]) / float64(s.L)
			}
			sum += row[j]
		}
		if sum == 0 {
			continue // no expected transition out of i: the normalisation of an all-zero row is not specified
		}
		for j := 0; j < c.M; j++ {
			w := math.Inf(-1)
			if row[j] > 0 {
				w = math.Log(row[j] / sum)
			}
			if !closeLog(res.tr[i][j], w, x.tl) {
				x.fail("BaumWelchStep", "tr", -1, vh.M{"from": i + 1, "to": j + 1, "log": fl(w)}, fl(res.tr[i][j]))
				return
			}
		}
	}
}

// ---------------------------------------------------------------- one HMM case

func seqVector(s *seqCase) ConstVector { return NewDenseFloat64Vector(floats(s.X)) }

func runHmmCase(rep *reporter, c *hmmCase, idx int) {
	logE := logTable(c.Em, c.Eden)
	accountHmm(rep, c)
	for _, s := range c.Seqs {
		if !s.Mech {
			rep.mismatch(vh.M{"engine": "hmm", "what": "model_inconsistent"}, vh.M{"case": c})
			return
		}
	}
	// 1. generic.Hmm, harness-implemented data record, Float64 and Real64 parameters
	for ti, t := range []styp{f64, r64} {
		variant := (idx + ti) % 2
		x := &ctxHmm{rep: rep, c: c, impl: "generic", typ: t.name, tl: tol}
		var h *generic.Hmm
		var err error
		msg := vh.Try(func() { h, err = buildGeneric(c, t, variant) })
		if msg != "" || err != nil || h == nil {
			x.fail("NewHmm", "error", -1, "model", fmt.Sprint(msg, err))
			continue
		}
		msg = vh.Try(func() {
			base := 0
			for si := range c.Seqs {
				rec := tableRec{logE, c.Seqs[si].X, base}
				base += len(c.Seqs[si].X)
				checkInference(x, si, genInf{h, rec, t}, true)
				checkForwardBackward(x, si, h, rec)
			}
		})
		if msg != "" {
			x.fail("inference", "panic", -1, "no panic", msg)
		}
		// 2. the float64-specialised forward-backward recursion (hmm_optimized.go) through one Baum-Welch step
		xo := &ctxHmm{rep: rep, c: c, impl: "optimized", typ: t.name, tl: tol}
		msg = vh.Try(func() { checkBaumWelch(xo, h, logE) })
		if msg != "" {
			xo.fail("BaumWelchStep", "panic", -1, "no panic", msg)
		}
	}
	// 3. wrappers with categorical emissions
	wt := f64
	if idx%2 == 1 {
		wt = r64
	}
	runWrappers(rep, c, idx, wt)
}

func runWrappers(rep *reporter, c *hmmCase, idx int, t styp) {
	pi := mkVec(t, floats(c.Pi))
	tr := mkMat(t, flatTr(c), c.M, c.M)
	smap := minus1(c.Smap)
	variant := idx % 2
	// vectorDistribution.Hmm
	{
		x := &ctxHmm{rep: rep, c: c, impl: "vectorDistribution", typ: t.name, tl: tol}
		msg := vh.Try(func() {
			ed, err := categoricals(c, t)
			if err != nil {
				x.fail("NewCategoricalDistribution", "error", -1, "emissions", err.Error())
				return
			}
			h, err := vectorDistribution.NewHmm(pi, tr, smap, ed)
			if err == nil {
				err = restrict(h, c, variant)
			}
			if err != nil {
				x.fail("NewHmm", "error", -1, "model", err.Error())
				return
			}
			if variant == 1 {
				h = h.Clone()
			}
			for si := range c.Seqs {
				s := &c.Seqs[si]
				xv := seqVector(s)
				checkInference(x, si, vecInf{h, xv, t}, true)
				if s.Zero {
					continue
				}
				// vectorClassifier.HmmPosterior: P(y_t in S | x) for every position
				xc := &ctxHmm{rep: rep, c: c, impl: "vectorClassifier", typ: t.name, tl: tol}
				r := NullDenseVector(Float64Type, len(s.X))
				if err := (vectorClassifier.HmmPosterior{Hmm: h, States: minus1(s.Cls.S)}).Eval(r, xv); err != nil {
					xc.fail("HmmPosterior.Eval", "error", si, s.Cls, err.Error())
				} else {
					for tt := range s.X {
						if !closeProb(r.At(tt).GetFloat64(), s.Cls.P[tt], s.L, tol) {
							xc.fail("HmmPosterior.Eval", "value", si, vh.M{"t": tt + 1, "states": s.Cls.S, "num": s.Cls.P[tt], "den": s.L}, fl(r.At(tt).GetFloat64()))
							break
						}
					}
				}
				// vectorClassifier.HmmClassifier: the Viterbi path
				r2 := NullDenseVector(Float64Type, len(s.X))
				if err := (vectorClassifier.HmmClassifier{Hmm: h}).Eval(r2, xv); err != nil {
					xc.fail("HmmClassifier.Eval", "error", si, s.Vit.Set, err.Error())
				} else {
					p := make([]int, len(s.X))
					okp := true
					for tt := range p {
						p[tt] = int(r2.At(tt).GetFloat64())
						if p[tt] < 0 || p[tt] >= c.M {
							okp = false
						}
					}
					member := false
					if okp {
						k := pathIndex(p, c.M)
						for _, e := range s.Vit.Set {
							member = member || e == k
						}
					}
					if !member {
						xc.fail("HmmClassifier.Eval", "not_argmax", si, s.Vit.Set, p)
					}
				}
			}
		})
		if msg != "" {
			x.fail("inference", "panic", -1, "no panic", msg)
		}
	}
	// matrixDistribution.Hmm: observations are the rows of an n x 1 matrix
	{
		x := &ctxHmm{rep: rep, c: c, impl: "matrixDistribution", typ: t.name, tl: tol}
		msg := vh.Try(func() {
			ed, err := categoricals(c, t)
			if err != nil {
				return
			}
			vd := make([]VectorPdf, len(ed))
			for j := range ed {
				if (idx+j)%2 == 0 {
					vd[j], _ = vectorDistribution.NewScalarId(ed[j])
				} else {
					vd[j], _ = vectorDistribution.NewScalarIid(ed[j], 1)
				}
			}
			h, err := matrixDistribution.NewHmm(pi, tr, smap, vd)
			if err == nil {
				err = restrict(h, c, variant)
			}
			if err != nil {
				x.fail("NewHmm", "error", -1, "model", err.Error())
				return
			}
			for si := range c.Seqs {
				s := &c.Seqs[si]
				xm := NewDenseFloat64Matrix(floats(s.X), len(s.X), 1)
				checkInference(x, si, matInf{h, xm, t}, true)
			}
		})
		if msg != "" {
			x.fail("inference", "panic", -1, "no panic", msg)
		}
	}
	// constrained / hierarchical HMM with trivial constraints must agree with the plain HMM
	if idx%4 == 0 {
		x := &ctxHmm{rep: rep, c: c, impl: "constrainedHmm", typ: t.name, tl: tolNewton}
		msg := vh.Try(func() {
			ed, _ := categoricals(c, t)
			h, err := vectorDistribution.NewConstrainedHmm(pi, tr, smap, ed, nil)
			if err == nil {
				err = restrict(h, c, 0)
			}
			if err != nil {
				x.fail("NewConstrainedHmm", "error", -1, "model", err.Error())
				return
			}
			for si := range c.Seqs {
				checkInference(x, si, vecInf{&h.Hmm, seqVector(&c.Seqs[si]), t}, false)
			}
		})
		if msg != "" {
			x.fail("inference", "panic", -1, "no panic", msg)
		}
	}
	if idx%4 == 2 {
		x := &ctxHmm{rep: rep, c: c, impl: "hierarchicalHmm", typ: t.name, tl: tol}
		msg := vh.Try(func() {
			ed, _ := categoricals(c, t)
			h, err := vectorDistribution.NewHierarchicalHmm(pi, tr, smap, ed, generic.NewHmmLeaf(0, c.M))
			if err == nil {
				err = restrict(h, c, 0)
			}
			if err != nil {
				x.fail("NewHierarchicalHmm", "error", -1, "model", err.Error())
				return
			}
			for si := range c.Seqs {
				checkInference(x, si, vecInf{&h.Hmm, seqVector(&c.Seqs[si]), t}, false)
			}
		})
		if msg != "" {
			x.fail("inference", "panic", -1, "no panic", msg)
		}
	}
}

// ---------------------------------------------------------------- one mixture case

type mixer interface {
	LogPdf() (float64, error)
	Posterior(s []int) (float64, error)
	Likelihood(s []int) (float64, error)
}
type genMix struct {
	m   *generic.Mixture
	rec generic.MixtureDataRecord
	t   styp
}

func (g genMix) LogPdf() (float64, error) {
	r := NewScalar(g.t.t, 0.0)
	err := g.m.LogPdf(r, g.rec)
	return r.GetFloat64(), err
}
func (g genMix) Posterior(s []int) (float64, error) {
	r := NewScalar(g.t.t, 0.0)
	err := g.m.Posterior(r, g.rec, s)
	return r.GetFloat64(), err
}
func (g genMix) Likelihood(s []int) (float64, error) {
	r := NewScalar(g.t.t, 0.0)
	err := g.m.Likelihood(r, g.rec, s)
	return r.GetFloat64(), err
}

type vecMix struct {
	m *vectorDistribution.Mixture
	x ConstVector
	t styp
	c bool // through the classifiers
}

func (g vecMix) LogPdf() (float64, error) {
	r := NewScalar(g.t.t, 0.0)
	err := g.m.LogPdf(r, g.x)
	return r.GetFloat64(), err
}
func (g vecMix) Posterior(s []int) (float64, error) {
	r := NewScalar(g.t.t, 0.0)
	var err error
	if g.c {
		err = vectorClassifier.MixturePosterior{Mixture: g.m, States: s}.Eval(r, g.x)
	} else {
		err = g.m.Posterior(r, g.x, s)
	}
	return r.GetFloat64(), err
}
func (g vecMix) Likelihood(s []int) (float64, error) {
	r := NewScalar(g.t.t, 0.0)
	var err error
	if g.c {
		err = vectorClassifier.MixtureLikelihood{Mixture: g.m, States: s}.Eval(r, g.x)
	} else {
		err = g.m.Likelihood(r, g.x, s)
	}
	return r.GetFloat64(), err
}

type scaMix struct {
	m *scalarDistribution.Mixture
	x ConstScalar
	t styp
}

func (g scaMix) LogPdf() (float64, error) {
	r := NewScalar(g.t.t, 0.0)
	err := g.m.LogPdf(r, g.x)
	return r.GetFloat64(), err
}
func (g scaMix) Posterior(s []int) (float64, error) {
	r := NewScalar(g.t.t, 0.0)
	err := g.m.Posterior(r, g.x, s)
	return r.GetFloat64(), err
}
func (g scaMix) Likelihood(s []int) (float64, error) {
	r := NewScalar(g.t.t, 0.0)
	err := g.m.Likelihood(r, g.x, s)
	return r.GetFloat64(), err
}

func checkMixture(rep *reporter, c *mixCase, impl string, t styp, mx mixer, hist ...*histRef) {
	var h *histRef
	if len(hist) > 0 {
		h = hist[0]
	}
	sig := func(op, what string) vh.M {
		sg := vh.M{"engine": "mixture", "impl": impl, "type": t.name, "op": op, "what": what}
		if h != nil {
			sg["history"] = true
		}
		return sg
	}
	fail := func(op, what string, exp, got interface{}) {
		rep.mismatch(sig(op, what), h.detail(vh.M{"mode": "replay", "kind": "mix", "case": c, "expected": exp, "observed": got}))
	}
	atomic.AddInt64(&rep.ncmp, 1)
	lp, err := mx.LogPdf()
	want := logRatio(c.Lik[0], c.Lik[1])
	if err != nil {
		fail("LogPdf", "error", fl(want), err.Error())
		return
	}
	if !closeLog(lp, want, tol) {
		fail("LogPdf", "value", fl(want), fl(lp))
		return
	}
	for _, s := range c.Subsets {
		st := minus1(s.S)
		if s.PostDef {
			v, err := mx.Posterior(st)
			w := logRatio(s.Post[0], s.Post[1])
			if err != nil {
				fail("Posterior", "error", vh.M{"s": s.S, "log": fl(w)}, err.Error())
				return
			}
			if !closeLog(v, w, tol) {
				fail("Posterior", "value", vh.M{"s": s.S, "log": fl(w)}, fl(v))
				return
			}
		}
		if s.LikDef {
			v, err := mx.Likelihood(st)
			w := logRatio(s.Lik[0], s.Lik[1])
			if err != nil {
				fail("Likelihood", "error", vh.M{"s": s.S, "log": fl(w)}, err.Error())
				return
			}
			if !closeLog(v, w, tol) {
				fail("Likelihood", "value", vh.M{"s": s.S, "log": fl(w)}, fl(v))
				return
			}
		}
	}
}

func runMixCase(rep *reporter, c *mixCase, idx int) {
	logE := logTable(c.Em, c.Eden)
	comp := make([]float64, c.K)
	for j := 0; j < c.K; j++ {
		for _, s := range c.X {
			comp[j] += logE[j][s]
		}
	}
	panicked := func(impl string, t styp, msg string) {
		if msg != "" {
			rep.mismatch(vh.M{"engine": "mixture", "impl": impl, "type": t.name, "op": "inference", "what": "panic"},
				vh.M{"mode": "replay", "kind": "mix", "case": c, "observed": msg})
		}
	}
	for _, t := range []styp{f64, r64} {
		t := t
		panicked("generic", t, vh.Try(func() {
			m, err := generic.NewMixture(mkVec(t, floats(c.W)))
			if err != nil {
				panic(err)
			}
			if idx%2 == 1 {
				m = m.Clone()
			}
			checkMixture(rep, c, "generic", t, genMix{m, mixRec{comp}, t})
			// a clone is an independent object: evaluating the clone while an evaluation of the original is
			// in progress (here: from inside the data record, as a nested model or a second worker would)
			// must not disturb the original; the demanded values are the same
			checkMixture(rep, c, "generic-clone-reentrant", t, genMix{m, reentrantRec{comp, m.Clone(), t}, t})
		}))
	}
	t := f64
	if idx%2 == 1 {
		t = r64
	}
	cats := func() []ScalarPdf {
		ed := make([]ScalarPdf, c.K)
		for j := 0; j < c.K; j++ {
			th := make([]float64, len(c.Em[j]))
			for s := range th {
				th[s] = float64(c.Em[j][s]) / float64(c.Eden)
			}
			d, err := scalarDistribution.NewCategoricalDistribution(mkVec(t, th))
			if err != nil {
				panic(err)
			}
			ed[j] = d
		}
		return ed
	}
	panicked("vectorDistribution", t, vh.Try(func() {
		ed := cats()
		vd := make([]VectorPdf, c.K)
		for j := range ed {
			if (idx+j)%2 == 0 {
				vd[j], _ = vectorDistribution.NewScalarIid(ed[j], len(c.X))
			} else {
				ds := make([]ScalarPdf, len(c.X))
				for i := range ds {
					ds[i] = ed[j]
				}
				vd[j], _ = vectorDistribution.NewScalarId(ds...)
			}
		}
		m, err := vectorDistribution.NewMixture(mkVec(t, floats(c.W)), vd)
		if err != nil {
			panic(err)
		}
		xv := NewDenseFloat64Vector(floats(c.X))
		checkMixture(rep, c, "vectorDistribution", t, vecMix{m, xv, t, false})
		checkMixture(rep, c, "vectorClassifier", t, vecMix{m, xv, t, true})
	}))
	if len(c.X) == 1 {
		panicked("scalarDistribution", t, vh.Try(func() {
			m, err := scalarDistribution.NewMixture(mkVec(t, floats(c.W)), cats())
			if err != nil {
				panic(err)
			}
			checkMixture(rep, c, "scalarDistribution", t, scaMix{m, ConstFloat64(float64(c.X[0])), t})
		}))
	}
}

// ---------------------------------------------------------------- replay

type slot struct {
	mu    sync.Mutex
	busy  bool
	start time.Time
	line  string
}

func replay(args []string) {
	if len(args) < 3 {
		vh.Fatal("usage: hmm replay cases results hmm|mix|hist")
	}
	kind := args[2]
	out := vh.NewOut(args[1])
	defer out.Close()
	rep := &reporter{out: out}
	nw := runtime.NumCPU()
	if nw > 8 {
		nw = 8
	}
	if v := vh.EnvInt("VERIF_HMM_WORKERS", 0); v > 0 {
		nw = v
	}
	type job struct {
		idx  int
		line []byte
	}
	jobs := make(chan job, 256)
	slots := make([]*slot, nw)
	var wg sync.WaitGroup
	var ncases int64
	// a hang of the library is an observation, not an infrastructure error
	go func() {
		for {
			time.Sleep(2 * time.Second)
			for _, s := range slots {
				if s == nil {
					continue
				}
				s.mu.Lock()
				if s.busy && time.Since(s.start) > 30*time.Second {
					var cs interface{}
					json.Unmarshal([]byte(s.line), &cs)
					vh.Mismatch(out, vh.M{"engine": kind, "what": "timeout"}, vh.M{"mode": "replay", "kind": kind, "case": cs, "limit_s": 30})
					vh.Summary(out, vh.M{"aborted": "timeout", "cases": atomic.LoadInt64(&ncases)})
					out.Close()
					os.Exit(0)
				}
				s.mu.Unlock()
			}
		}
	}()
	for w := 0; w < nw; w++ {
		s := &slot{}
		slots[w] = s
		wg.Add(1)
		go func() {
			defer wg.Done()
			for j := range jobs {
				s.mu.Lock()
				s.busy, s.start, s.line = true, time.Now(), string(j.line)
				s.mu.Unlock()
				if kind == "hist" {
					var c histCase
					if e := json.Unmarshal(j.line, &c); e != nil {
						vh.Fatal("bad case:", e, string(j.line[:min(200, len(j.line))]))
					}
					runHistCase(rep, &c, j.idx)
				} else if kind == "mix" {
					var c mixCase
					if e := json.Unmarshal(j.line, &c); e != nil {
						vh.Fatal("bad case:", e, string(j.line[:min(200, len(j.line))]))
					}
					runMixCase(rep, &c, j.idx)
				} else {
					var c hmmCase
					if e := json.Unmarshal(j.line, &c); e != nil {
						vh.Fatal("bad case:", e, string(j.line[:min(200, len(j.line))]))
					}
					runHmmCase(rep, &c, j.idx)
				}
				atomic.AddInt64(&ncases, 1)
				s.mu.Lock()
				s.busy = false
				s.mu.Unlock()
			}
		}()
	}
	idx := 0
	err := vh.EachLine(args[0], func(line []byte) error {
		cp := append([]byte{}, line...)
		jobs <- job{idx, cp}
		idx++
		return nil
	})
	close(jobs)
	wg.Wait()
	if err != nil {
		vh.Fatal(err)
	}
	sum := vh.M{"cases": ncases, "comparisons": rep.ncmp, "mismatches": rep.nmis, "features": rep.features(),
		"viterbi_tiebreak_drift": rep.drift}
	if kind == "hist" {
		sum["history_features"] = histSummary()
	}
	vh.Summary(out, sum)
}

func min(a, b int) int {
	if a < b {
		return a
	}
	return b
}

// ---------------------------------------------------------------- recorder

const scaleBits = 20

func fixed(logp float64) int64 {
	if math.IsNaN(logp) {
		return -1
	}
	return int64(math.Round(math.Exp(logp) * float64(int64(1)<<scaleBits)))
}

type event struct {
	E     string    `json:"e"`
	Op    string    `json:"op"`
	Impl  string    `json:"impl"`
	M     int       `json:"m"`
	Pi    []int     `json:"pi"`
	Tr    [][]int   `json:"tr"`
	Smap  []int     `json:"smap"`
	Em    [][]int   `json:"em"`
	Eden  int       `json:"eden"`
	Start []int     `json:"start"`
	Final []int     `json:"final"`
	X     []int     `json:"x"`
	Zero  bool      `json:"zero"`
	V     int64     `json:"v"`
	Marg  [][]int64 `json:"marg"`
	Q     [][]int   `json:"q"`
	Path  []int     `json:"path"`
	K     int       `json:"k"`
	W     []int     `json:"w"`
	S     []int     `json:"s"`
	H     int       `json:"h"`  // 1: the call was made on the long-lived object of a history
	Ck    string    `json:"ck"` // kind of a parameter change (events hchg / mchg)
}

func composition(rng *rand.Rand, total, parts int) []int {
	r := make([]int, parts)
	for i := 0; i < total; i++ {
		r[rng.Intn(parts)]++
	}
	// make zeros frequent
	if parts > 1 && rng.Intn(3) == 0 {
		i, j := rng.Intn(parts), rng.Intn(parts)
		if i != j {
			r[j] += r[i]
			r[i] = 0
		}
	}
	return r
}
func randSubset(rng *rand.Rand, m int, allowEmpty bool) []int {
	for {
		s := []int{}
		for i := 1; i <= m; i++ {
			if rng.Intn(2) == 0 {
				s = append(s, i)
			}
		}
		if len(s) > 0 || allowEmpty {
			return s
		}
	}
}
func sumOver(w []int, set []int) int {
	if len(set) == 0 {
		r := 0
		for _, x := range w {
			r += x
		}
		return r
	}
	r := 0
	for _, i := range set {
		r += w[i-1]
	}
	return r
}

func randomModel(rng *rand.Rand) *hmmCase {
	for {
		c := &hmmCase{Eden: 4}
		c.M = 1 + rng.Intn(3)
		rs := 4 + rng.Intn(3) // row sum 4..6: keeps the common denominator of all path weights below 2^30
		c.Pi = composition(rng, rs, c.M)
		for i := 0; i < c.M; i++ {
			c.Tr = append(c.Tr, composition(rng, rs, c.M))
		}
		c.Smap = make([]int, c.M)
		for i := range c.Smap {
			c.Smap[i] = 1 + rng.Intn(c.M)
		}
		for j := 0; j < maxInt(c.Smap); j++ {
			c.Em = append(c.Em, []int{rng.Intn(4), rng.Intn(4)})
		}
		c.Start, c.Final = []int{}, []int{}
		if rng.Intn(2) == 0 {
			c.Start = randSubset(rng, c.M, false)
		}
		if rng.Intn(2) == 0 {
			c.Final = randSubset(rng, c.M, false)
		}
		ok := sumOver(c.Pi, c.Start) > 0
		for i := 0; i < c.M; i++ {
			ok = ok && sumOver(c.Tr[i], c.Final) > 0
		}
		if ok {
			return c
		}
	}
}

// the inference calls of one trial on the object h whose current parameters are c
func recordCalls(rng *rand.Rand, out *vh.Out, c *hmmCase, h *generic.Hmm, t styp, x []int, q [][]int, hflag int) {
	n := len(x)
	base := event{E: "hmm", M: c.M, Pi: c.Pi, Tr: c.Tr, Smap: c.Smap, Em: c.Em, Eden: c.Eden, Start: c.Start, Final: c.Final,
		X: x, Marg: [][]int64{}, Q: [][]int{}, Path: []int{}, W: []int{}, S: []int{}, H: hflag}
	logE := logTable(c.Em, c.Eden)
	rec := tableRec{logE, x, 0}
	inf := genInf{h, rec, t}
	lp, err := inf.logPdf()
	zero := err == nil && math.IsInf(lp, -1)
	e := base
	e.Op, e.Impl, e.Zero, e.V = "logpdf", "generic-"+t.name, zero, fixed(lp)
	if err != nil {
		e.V = -1
	}
	out.Put(e)
	if zero {
		return
	}
	if g, err := inf.marginals(); err == nil {
		e := base
		e.Op, e.Impl = "marginals", "generic-"+t.name
		for tt := 0; tt < n; tt++ {
			row := make([]int64, c.M)
			for i := 0; i < c.M; i++ {
				row[i] = fixed(g[i].At(tt).GetFloat64())
			}
			e.Marg = append(e.Marg, row)
		}
		out.Put(e)
	} else {
		e := base
		e.Op, e.Impl, e.V = "marginals-error:"+err.Error(), "generic-"+t.name, -1
		out.Put(e)
	}
	{
		q0 := make([][]int, n)
		for tt := range q {
			q0[tt] = minus1(q[tt])
		}
		v, err := inf.posterior(q0)
		e := base
		e.Op, e.Impl, e.Q, e.V = "posterior", "generic-"+t.name, q, fixed(v)
		if err != nil {
			e.V = -1
		}
		out.Put(e)
	}
	if p, err := inf.viterbi(); err == nil {
		e := base
		e.Op, e.Impl = "viterbi", "generic-"+t.name
		for _, s := range p {
			e.Path = append(e.Path, s+1)
		}
		out.Put(e)
	}
	// the float64-specialised recursion: likelihood and (identity state map) marginals of one Baum-Welch step
	if len(c.Final) <= 1 {
		cc := *c
		cc.Seqs = []seqCase{{X: x}}
		if res, err := runBaumWelch(&cc, h, logE); err == nil {
			e := base
			e.Op, e.Impl, e.V = "logpdf", "optimized-"+t.name, fixed(res.lik)
			out.Put(e)
			if isIdentity(c.Smap) {
				e := base
				e.Op, e.Impl = "marginals", "optimized-"+t.name
				for tt := 0; tt < n; tt++ {
					row := make([]int64, c.M)
					for i := 0; i < c.M; i++ {
						row[i] = fixed(res.gamma[i][tt])
					}
					e.Marg = append(e.Marg, row)
				}
				out.Put(e)
			}
		}
	}
}

// a random admissible parameter change of the long-lived object: applied to the real object h,
// logged as an "hchg" event; returns the object and the recorder's copy of its parameters
func recordChange(rng *rand.Rand, out *vh.Out, c *hmmCase, h *generic.Hmm, t styp) (*hmmCase, *generic.Hmm) {
	blank := event{E: "hchg", Pi: []int{}, Tr: [][]int{}, Smap: []int{}, Em: [][]int{}, Start: []int{}, Final: []int{}, X: []int{},
		Marg: [][]int64{}, Q: [][]int{}, Path: []int{}, W: []int{}, S: []int{}, H: 1}
	nc := *c
	for try := 0; try < 50; try++ {
		switch rng.Intn(4) {
		case 0: // SetParameters: new rows (compositions of 4..6), Pi supported inside the start set
			rs := 4 + rng.Intn(3)
			pi := composition(rng, rs, c.M)
			okp := sumOver(pi, nil) > 0
			if len(c.Start) > 0 {
				in := map[int]bool{}
				for _, i := range c.Start {
					in[i] = true
				}
				for i := range pi {
					if !in[i+1] && pi[i] != 0 {
						okp = false
					}
				}
			}
			tr := [][]int{}
			for i := 0; i < c.M; i++ {
				row := composition(rng, rs, c.M)
				okp = okp && sumOver(row, c.Final) > 0
				tr = append(tr, row)
			}
			if !okp {
				continue
			}
			if err := h.SetParameters(hmmParams(t, pi, tr)); err != nil {
				panic(err)
			}
			e := blank
			e.Ck, e.Pi, e.Tr = "set", pi, tr
			out.Put(e)
			nc.Pi, nc.Tr = pi, tr
			return &nc, h
		case 1: // SetStartStates: cumulative restriction of the current initial vector
			s := randSubset(rng, c.M, false)
			pi := make([]int, c.M)
			for _, i := range s {
				pi[i-1] = c.Pi[i-1]
			}
			if len(c.Start) > 0 {
				in := map[int]bool{}
				for _, i := range c.Start {
					in[i] = true
				}
				for i := range pi {
					if !in[i+1] {
						pi[i] = 0
					}
				}
			}
			if sumOver(pi, nil) == 0 {
				continue
			}
			if err := h.SetStartStates(minus1(s)); err != nil {
				panic(err)
			}
			e := blank
			e.Ck, e.S = "start", s
			out.Put(e)
			nc.Pi, nc.Start = pi, s
			return &nc, h
		case 2: // SetFinalStates
			f := randSubset(rng, c.M, false)
			okf := true
			for i := 0; i < c.M; i++ {
				okf = okf && sumOver(c.Tr[i], f) > 0
			}
			if !okf {
				continue
			}
			if err := h.SetFinalStates(minus1(f)); err != nil {
				panic(err)
			}
			e := blank
			e.Ck, e.S = "final", f
			out.Put(e)
			nc.Final = f
			return &nc, h
		default:
			e := blank
			e.Ck = "clone"
			out.Put(e)
			return &nc, h.Clone()
		}
	}
	e := blank
	e.Ck = "clone"
	out.Put(e)
	return &nc, h.Clone()
}

func record(args []string) {
	if len(args) < 2 {
		vh.Fatal("usage: hmm record trace ntrials")
	}
	ntr, _ := strconv.Atoi(args[1])
	seed := int64(vh.EnvInt("VERIF_SEED", 1))
	rng := rand.New(rand.NewSource(seed*7919 + 17))
	out := vh.NewOut(args[0])
	defer out.Close()
	wd := vh.NewWatchdog(30*time.Second, out, vh.M{"engine": "trace"})
	for tr := 0; tr < ntr; tr++ {
		if tr%5 == 4 {
			recordMixture(rng, out, tr%2 == 0)
			continue
		}
		c := randomModel(rng)
		n := 1 + rng.Intn(5)
		x := make([]int, n)
		for i := range x {
			x[i] = rng.Intn(2)
		}
		q := make([][]int, n)
		for tt := range q {
			q[tt] = randSubset(rng, c.M, rng.Intn(6) == 0)
		}
		t := f64
		if tr%2 == 1 {
			t = r64
		}
		history := tr%3 == 0
		wd.Begin(c)
		msg := vh.Try(func() {
			h, err := buildGeneric(c, t, tr%2)
			if err != nil {
				panic(err)
			}
			if !history {
				recordCalls(rng, out, c, h, t, x, q, 0)
				return
			}
			// one object, calls - change - the same calls - change - the same calls
			out.Put(event{E: "hnew", M: c.M, Pi: c.Pi, Tr: c.Tr, Smap: c.Smap, Em: c.Em, Eden: c.Eden, Start: c.Start, Final: c.Final,
				X: []int{}, Marg: [][]int64{}, Q: [][]int{}, Path: []int{}, W: []int{}, S: []int{}, H: 1})
			if c.Start == nil {
				c.Start = []int{}
			}
			// the recorder's copy holds the effective initial weights (zero outside the start set)
			cur := *c
			if len(c.Start) > 0 {
				pi := make([]int, c.M)
				for _, i := range c.Start {
					pi[i-1] = c.Pi[i-1]
				}
				cur.Pi = pi
			}
			cp := &cur
			recordCalls(rng, out, cp, h, t, x, q, 1)
			for k := 0; k < 1+rng.Intn(2); k++ {
				cp, h = recordChange(rng, out, cp, h, t)
				recordCalls(rng, out, cp, h, t, x, q, 1)
			}
		})
		wd.End()
		if msg != "" {
			out.Put(event{E: "hmm", Op: "panic:" + msg, V: -1, M: c.M, Pi: c.Pi, Tr: c.Tr, Smap: c.Smap, Em: c.Em, Eden: c.Eden,
				Start: c.Start, Final: c.Final, X: x, Marg: [][]int64{}, Q: [][]int{}, Path: []int{}, W: []int{}, S: []int{}})
		}
	}
}

func recordMixture(rng *rand.Rand, out *vh.Out, history bool) {
	k := 1 + rng.Intn(4)
	w := composition(rng, 3+rng.Intn(6), k)
	em := [][]int{}
	for j := 0; j < k; j++ {
		em = append(em, []int{rng.Intn(4), rng.Intn(4)})
	}
	d := 1 + rng.Intn(3)
	x := make([]int, d)
	for i := range x {
		x[i] = rng.Intn(2)
	}
	hflag := 0
	if history {
		hflag = 1
	}
	blank := event{K: k, Em: em, Eden: 4, X: []int{}, Pi: []int{}, Tr: [][]int{}, Smap: []int{}, Start: []int{}, Final: []int{},
		Marg: [][]int64{}, Q: [][]int{}, Path: []int{}, S: []int{}, W: []int{}, H: hflag}
	logE := logTable(em, 4)
	comp := make([]float64, k)
	for j := 0; j < k; j++ {
		for _, s := range x {
			comp[j] += logE[j][s]
		}
	}
	t := f64
	if rng.Intn(2) == 0 {
		t = r64
	}
	s := randSubset(rng, k, false)
	s2 := randSubset(rng, k, false)
	// LogPdf, Posterior and Likelihood for the component list `set` on the object m with weights w
	calls := func(m *generic.Mixture, w []int, set []int) {
		base := blank
		base.E, base.W, base.X = "mix", w, x
		g := genMix{m, mixRec{comp}, t}
		lp, _ := g.LogPdf()
		zero := math.IsInf(lp, -1)
		e := base
		e.Op, e.Impl, e.Zero, e.V = "logpdf", "generic-"+t.name, zero, fixed(lp)
		out.Put(e)
		if !zero {
			v, _ := g.Posterior(minus1(set))
			e := base
			e.Op, e.Impl, e.S, e.V = "posterior", "generic-"+t.name, set, fixed(v)
			out.Put(e)
		}
		if sumOver(w, set) > 0 {
			v, _ := g.Likelihood(minus1(set))
			e := base
			e.Op, e.Impl, e.S, e.Zero, e.V = "likelihood", "generic-"+t.name, set, zero, fixed(v)
			out.Put(e)
		}
	}
	msg := vh.Try(func() {
		m, err := generic.NewMixture(mkVec(t, floats(w)))
		if err != nil {
			panic(err)
		}
		if !history {
			calls(m, w, s)
			return
		}
		// one object: calls, the same calls again, change of the weights (or Clone), the same calls, the other list, the first list
		e := blank
		e.E, e.W = "mnew", w
		out.Put(e)
		calls(m, w, s)
		calls(m, w, s)
		for r := 0; r < 2; r++ {
			e := blank
			e.E = "mchg"
			if rng.Intn(4) == 0 {
				e.Ck = "clone"
				m = m.Clone()
			} else {
				w = composition(rng, 3+rng.Intn(6), k)
				e.Ck, e.W = "set", w
				if err := m.SetParameters(mkVec(t, logNorm(w))); err != nil {
					panic(err)
				}
			}
			out.Put(e)
			calls(m, w, s)
			calls(m, w, s2)
			calls(m, w, s)
		}
	})
	if msg != "" {
		e := blank
		e.E, e.W, e.X = "mix", w, x
		e.Op, e.V = "panic:"+msg, -1
		out.Put(e)
	}
}

func main() {
	if len(os.Args) < 2 {
		vh.Fatal("usage: hmm replay|record ...")
	}
	switch os.Args[1] {
	case "replay":
		replay(os.Args[2:])
	case "record":
		record(os.Args[2:])
	default:
		vh.Fatal("unknown sub-command", os.Args[1])
	}
}
