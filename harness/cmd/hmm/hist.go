// Histories on ONE object (spec/HMMHist.tla): a mixture or an HMM object is built
// once per implementation and then lives through the whole history of inference
// calls and parameter changes (SetParameters, SetStartStates, SetFinalStates,
// Clone).  Every call is compared with the values TLC printed for the parameters
// current at that moment: no state may be carried from one call to the next.
package main

import (
	"encoding/json"
	"fmt"
	"math"
	"sync/atomic"

	. "github.com/pbenner/autodiff"
	. "github.com/pbenner/autodiff/statistics"
	"github.com/pbenner/autodiff/statistics/generic"
	"github.com/pbenner/autodiff/statistics/scalarDistribution"
	"github.com/pbenner/autodiff/statistics/vectorClassifier"
	"github.com/pbenner/autodiff/statistics/vectorDistribution"
	"verifharness/vh"
)

type histChange struct {
	K   string `json:"k"`
	W   []int  `json:"w"`
	Rev bool   `json:"rev"`
	Pi  []int  `json:"pi"`
	R   int    `json:"r"`
	C   int    `json:"c"`
	S   []int  `json:"s"`
}
type histAfter struct {
	W     []int   `json:"w"`
	Em    [][]int `json:"em"`
	Pi    []int   `json:"pi"`
	Tr    [][]int `json:"tr"`
	Start []int   `json:"start"`
	Final []int   `json:"final"`
}
type histStep struct {
	T     string          `json:"t"`
	C     int             `json:"c"`
	Exp   json.RawMessage `json:"exp"`
	Ch    histChange      `json:"ch"`
	After histAfter       `json:"after"`
}
type histCase struct {
	Kind  string     `json:"kind"`
	M     int        `json:"m"`
	W     []int      `json:"w"`
	Pi    []int      `json:"pi"`
	Tr    [][]int    `json:"tr"`
	Smap  []int      `json:"smap"`
	Em    [][]int    `json:"em"`
	Eden  int        `json:"eden"`
	D     int        `json:"d"`
	Steps []histStep `json:"steps"`
}
type mixExp struct {
	X       []int `json:"x"`
	S       []int `json:"s"`
	Zero    bool  `json:"zero"`
	Lik     rat   `json:"lik"`
	PostDef bool  `json:"postdef"`
	Post    rat   `json:"post"`
	LikDef  bool  `json:"likdef"`
	SLik    rat   `json:"slik"`
}

// reference of a mismatch to the history it occurred in (the replay object is the whole history)
type histRef struct {
	c    *histCase
	step int
}

func (h *histRef) detail(d vh.M) vh.M {
	if h == nil {
		return d
	}
	d["params_at_call"] = d["case"]
	d["case"] = h.c
	d["kind"] = "hist"
	d["step"] = h.step + 1
	return d
}

// vacuity accounting for histories
type histStats struct {
	histories, calls, changes           int64
	set, start, final, clone            int64
	repeatAfterChange, repeatBackToBack int64
	alternating                         int64
}

var hstats histStats

func accountHist(c *histCase) {
	atomic.AddInt64(&hstats.histories, 1)
	lastCall := 0       // letter of the last call
	changedSince := map[int]bool{} // call letter -> a parameter-changing step happened since its last occurrence
	seen := map[int]bool{}
	prevPrev := 0
	for _, st := range c.Steps {
		if st.T == "call" {
			atomic.AddInt64(&hstats.calls, 1)
			if seen[st.C] && changedSince[st.C] {
				atomic.AddInt64(&hstats.repeatAfterChange, 1)
			}
			if lastCall == st.C {
				atomic.AddInt64(&hstats.repeatBackToBack, 1)
			}
			if prevPrev == st.C && lastCall != st.C && lastCall != 0 {
				atomic.AddInt64(&hstats.alternating, 1)
			}
			prevPrev, lastCall = lastCall, st.C
			seen[st.C] = true
			changedSince[st.C] = false
			continue
		}
		atomic.AddInt64(&hstats.changes, 1)
		switch st.Ch.K {
		case "set":
			atomic.AddInt64(&hstats.set, 1)
		case "start":
			atomic.AddInt64(&hstats.start, 1)
		case "final":
			atomic.AddInt64(&hstats.final, 1)
		case "clone":
			atomic.AddInt64(&hstats.clone, 1)
		}
		if st.Ch.K != "clone" {
			for k := range seen {
				changedSince[k] = true
			}
		}
	}
}

func histSummary() vh.M {
	return vh.M{"histories": hstats.histories, "calls": hstats.calls, "changes": hstats.changes,
		"set_parameters": hstats.set, "set_start_states": hstats.start, "set_final_states": hstats.final, "clone": hstats.clone,
		"same_call_repeated_after_parameter_change": hstats.repeatAfterChange,
		"same_call_back_to_back":                    hstats.repeatBackToBack,
		"calls_alternating_a_b_a":                   hstats.alternating}
}

func logNorm(w []int) []float64 {
	s := 0
	for _, x := range w {
		s += x
	}
	r := make([]float64, len(w))
	for i, x := range w {
		r[i] = logRatio(int64(x), int64(s))
	}
	return r
}

// ---------------------------------------------------------------- mixture histories

func runMixHist(rep *reporter, c *histCase, idx int) {
	exps := make([]*mixExp, len(c.Steps))
	for i, st := range c.Steps {
		if st.T == "call" {
			e := &mixExp{}
			if err := json.Unmarshal(st.Exp, e); err != nil {
				vh.Fatal("bad mixture call in history:", err)
			}
			exps[i] = e
		}
	}
	pseudo := func(w []int, em [][]int, e *mixExp) *mixCase {
		return &mixCase{K: c.M, W: w, Em: em, Eden: c.Eden, X: e.X, Zero: e.Zero, Lik: e.Lik,
			Subsets: []subCase{{S: e.S, PostDef: e.PostDef, Post: e.Post, LikDef: e.LikDef, Lik: e.SLik}}}
	}
	panicked := func(impl string, t styp, step int, msg string) {
		if msg != "" {
			rep.mismatch(vh.M{"engine": "mixture", "impl": impl, "type": t.name, "op": "history", "what": "panic", "history": true},
				vh.M{"mode": "replay", "kind": "hist", "case": c, "step": step + 1, "observed": msg})
		}
	}
	comp := func(em [][]int, x []int) []float64 {
		logE := logTable(em, c.Eden)
		r := make([]float64, c.M)
		for j := 0; j < c.M; j++ {
			for _, s := range x {
				r[j] += logE[j][s]
			}
		}
		return r
	}
	// 1. generic.Mixture, Float64 and Real64 weights, harness data record
	for _, t := range []styp{f64, r64} {
		t := t
		step := 0
		panicked("generic", t, step, vh.Try(func() {
			m, err := generic.NewMixture(mkVec(t, floats(c.W)))
			if err != nil {
				panic(err)
			}
			w, em := c.W, c.Em
			for i, st := range c.Steps {
				step = i
				if st.T == "call" {
					checkMixture(rep, pseudo(w, em, exps[i]), "generic", t, genMix{m, mixRec{comp(em, exps[i].X)}, t}, &histRef{c, i})
					continue
				}
				switch st.Ch.K {
				case "clone":
					m = m.Clone()
				case "set":
					w, em = st.After.W, st.After.Em
					if err := m.SetParameters(mkVec(t, logNorm(w))); err != nil {
						panic(err)
					}
				}
			}
		}))
	}
	// 2. the wrappers: SetParameters carries the weights and the emission parameters
	t := f64
	if idx%2 == 1 {
		t = r64
	}
	cats := func(em [][]int) []ScalarPdf {
		ed := make([]ScalarPdf, c.M)
		for j := 0; j < c.M; j++ {
			th := make([]float64, len(em[j]))
			for s := range th {
				th[s] = float64(em[j][s]) / float64(c.Eden)
			}
			d, err := scalarDistribution.NewCategoricalDistribution(mkVec(t, th))
			if err != nil {
				panic(err)
			}
			ed[j] = d
		}
		return ed
	}
	fullParams := func(w []int, em [][]int) Vector {
		v := logNorm(w)
		for j := 0; j < c.M; j++ {
			for s := range em[j] {
				v = append(v, logRatio(int64(em[j][s]), int64(c.Eden)))
			}
		}
		return mkVec(t, v)
	}
	{
		step := 0
		panicked("vectorDistribution", t, step, vh.Try(func() {
			ed := cats(c.Em)
			vd := make([]VectorPdf, c.M)
			for j := range ed {
				vd[j], _ = vectorDistribution.NewScalarIid(ed[j], c.D)
			}
			m, err := vectorDistribution.NewMixture(mkVec(t, floats(c.W)), vd)
			if err != nil {
				panic(err)
			}
			w, em := c.W, c.Em
			for i, st := range c.Steps {
				step = i
				if st.T == "call" {
					xv := NewDenseFloat64Vector(floats(exps[i].X))
					impl := "vectorDistribution"
					if (idx+i)%2 == 1 {
						impl = "vectorClassifier"
					}
					checkMixture(rep, pseudo(w, em, exps[i]), impl, t, vecMix{m, xv, t, impl == "vectorClassifier"}, &histRef{c, i})
					continue
				}
				switch st.Ch.K {
				case "clone":
					m = m.Clone()
				case "set":
					w, em = st.After.W, st.After.Em
					if err := m.SetParameters(fullParams(w, em)); err != nil {
						panic(err)
					}
				}
			}
		}))
	}
	if c.D == 1 {
		step := 0
		panicked("scalarDistribution", t, step, vh.Try(func() {
			m, err := scalarDistribution.NewMixture(mkVec(t, floats(c.W)), cats(c.Em))
			if err != nil {
				panic(err)
			}
			w, em := c.W, c.Em
			for i, st := range c.Steps {
				step = i
				if st.T == "call" {
					checkMixture(rep, pseudo(w, em, exps[i]), "scalarDistribution", t,
						scaMix{m, ConstFloat64(float64(exps[i].X[0])), t}, &histRef{c, i})
					continue
				}
				switch st.Ch.K {
				case "clone":
					m = m.Clone()
				case "set":
					w, em = st.After.W, st.After.Em
					if err := m.SetParameters(fullParams(w, em)); err != nil {
						panic(err)
					}
				}
			}
		}))
	}
}

// ---------------------------------------------------------------- HMM histories

func hmmParams(t styp, pi []int, tr [][]int) Vector {
	v := logNorm(pi)
	for i := range tr {
		v = append(v, logNorm(tr[i])...)
	}
	return mkVec(t, v)
}

type hmmObject interface {
	SetParameters(Vector) error
	SetStartStates([]int) error
	SetFinalStates([]int) error
}

func applyHmmChange(t styp, h hmmObject, st *histStep) error {
	switch st.Ch.K {
	case "set":
		return h.SetParameters(hmmParams(t, st.After.Pi, st.After.Tr))
	case "start":
		return h.SetStartStates(minus1(st.Ch.S))
	case "final":
		return h.SetFinalStates(minus1(st.Ch.S))
	}
	return fmt.Errorf("unknown change %q", st.Ch.K)
}

func runHmmHist(rep *reporter, c *histCase, idx int) {
	exps := make([]*seqCase, len(c.Steps))
	for i, st := range c.Steps {
		if st.T == "call" {
			e := &seqCase{}
			if err := json.Unmarshal(st.Exp, e); err != nil {
				vh.Fatal("bad HMM call in history:", err)
			}
			exps[i] = e
			if !e.Mech {
				rep.mismatch(vh.M{"engine": "hmm", "what": "model_inconsistent"}, vh.M{"kind": "hist", "case": c})
				return
			}
		}
	}
	initial := func() *hmmCase {
		return &hmmCase{M: c.M, Pi: c.Pi, Tr: c.Tr, Smap: c.Smap, Em: c.Em, Eden: c.Eden, Start: []int{}, Final: []int{}}
	}
	update := func(p *hmmCase, st *histStep) *hmmCase {
		if st.Ch.K == "clone" {
			return p
		}
		q := *p
		q.Pi, q.Tr, q.Start, q.Final = st.After.Pi, st.After.Tr, st.After.Start, st.After.Final
		return &q
	}
	logE := logTable(c.Em, c.Eden)
	// 1. generic.Hmm with Float64 and Real64 parameters
	for _, t := range []styp{f64, r64} {
		t := t
		x := &ctxHmm{rep: rep, impl: "generic", typ: t.name, tl: tol, hist: &histRef{c, 0}}
		msg := vh.Try(func() {
			cur := initial()
			x.c = cur
			h, err := buildGeneric(cur, t, 0)
			if err != nil {
				panic(err)
			}
			for i := range c.Steps {
				st := &c.Steps[i]
				x.hist.step = i
				if st.T == "call" {
					pc := *cur
					pc.Seqs = []seqCase{*exps[i]}
					x.c = &pc
					rec := tableRec{logE, exps[i].X, 0}
					checkInference(x, 0, genInf{h, rec, t}, true)
					checkForwardBackward(x, 0, h, rec)
					if t.name == "f64" {
						xo := &ctxHmm{rep: rep, c: &pc, impl: "optimized", typ: t.name, tl: tol, hist: &histRef{c, i}}
						checkBaumWelch(xo, h, logE)
					}
					continue
				}
				if st.Ch.K == "clone" {
					h = h.Clone()
				} else if err := applyHmmChange(t, h, st); err != nil {
					x.c = cur
					x.fail(st.Ch.K, "error", -1, "parameter change accepted", err.Error())
					return
				}
				cur = update(cur, st)
			}
		})
		if msg != "" {
			x.fail("history", "panic", -1, "no panic", msg)
		}
	}
	// 2. vectorDistribution.Hmm with categorical emissions (+ the classifiers on top of it)
	t := f64
	if idx%2 == 1 {
		t = r64
	}
	x := &ctxHmm{rep: rep, impl: "vectorDistribution", typ: t.name, tl: tol, hist: &histRef{c, 0}}
	msg := vh.Try(func() {
		cur := initial()
		x.c = cur
		ed, err := categoricals(cur, t)
		if err != nil {
			panic(err)
		}
		h, err := vectorDistribution.NewHmm(mkVec(t, floats(c.Pi)), mkMat(t, flatTr(cur), c.M, c.M), minus1(c.Smap), ed)
		if err != nil {
			panic(err)
		}
		for i := range c.Steps {
			st := &c.Steps[i]
			x.hist.step = i
			if st.T == "call" {
				pc := *cur
				pc.Seqs = []seqCase{*exps[i]}
				x.c = &pc
				s := exps[i]
				xv := seqVector(s)
				checkInference(x, 0, vecInf{h, xv, t}, true)
				if !s.Zero {
					xc := &ctxHmm{rep: rep, c: &pc, impl: "vectorClassifier", typ: t.name, tl: tol, hist: &histRef{c, i}}
					r := NullDenseVector(Float64Type, len(s.X))
					if err := (vectorClassifier.HmmPosterior{Hmm: h, States: minus1(s.Cls.S)}).Eval(r, xv); err != nil {
						xc.fail("HmmPosterior.Eval", "error", 0, s.Cls, err.Error())
					} else {
						for tt := range s.X {
							if !closeProb(r.At(tt).GetFloat64(), s.Cls.P[tt], s.L, tol) {
								xc.fail("HmmPosterior.Eval", "value", 0, vh.M{"t": tt + 1, "states": s.Cls.S, "num": s.Cls.P[tt], "den": s.L}, fl(r.At(tt).GetFloat64()))
								break
							}
						}
					}
				}
				continue
			}
			if st.Ch.K == "clone" {
				h = h.Clone()
			} else if err := applyHmmChange(t, h, st); err != nil {
				x.c = cur
				x.fail(st.Ch.K, "error", -1, "parameter change accepted", err.Error())
				return
			}
			cur = update(cur, st)
		}
	})
	if msg != "" {
		x.fail("history", "panic", -1, "no panic", msg)
	}
}

func runHistCase(rep *reporter, c *histCase, idx int) {
	accountHist(c)
	if c.Kind == "mix" {
		runMixHist(rep, c, idx)
	} else {
		runHmmHist(rep, c, idx)
	}
}

var _ = math.Inf
