package main

import (
	"math"

	. "github.com/pbenner/autodiff"
)

type rat struct {
	N int64 `json:"n"`
	D int64 `json:"d"`
}

func (r rat) f() float64 { return float64(r.N) / float64(r.D) }

type startRec struct {
	X   []float64 `json:"x"`
	Box struct {
		Lo []float64 `json:"lo"`
		Hi []float64 `json:"hi"`
	} `json:"box"`
	Half struct {
		K    int  `json:"k"`
		Has  bool `json:"has"`
		T    rat  `json:"t"`
		Side int  `json:"side"`
	} `json:"half"`
}

type combo struct {
	EpsExp   int    `json:"epsexp"`
	Maxit    int    `json:"maxit"`
	HookStop int    `json:"hookstop"`
	Cons     string `json:"cons"`
}

// caseT is one case printed by TLC (spec/Quadratics.tla); which fields are
// meaningful depends on Kind.
type caseT struct {
	Kind   string      `json:"kind"`
	N      int         `json:"n"`
	L      [][]float64 `json:"L"`
	D      float64     `json:"d"`
	C      []float64   `json:"c"`
	A      [][]float64 `json:"A"`
	Bv     []float64   `json:"b"`
	Xstar  []rat       `json:"xstar"`
	Invb2  rat         `json:"invb2"`
	Lip2   rat         `json:"lip2"`
	Sc     bool        `json:"sc"`
	Starts []startRec  `json:"starts"`
	M      []rat       `json:"m"`
	K      []int       `json:"k"`
	Data   [][]float64 `json:"data"`
	Lambda rat         `json:"lambda"`
	Ra     float64     `json:"ra"`
	Rb     float64     `json:"rb"`
	Deg    int         `json:"deg"`
	Form   string      `json:"form"`
	Roots  [][]float64 `json:"roots"`
	// line1d (spec/WolfeCases.tla): phi(a) = sum_j coefs[j-1] a^j, first trial step alpha1
	Coefs   []rat    `json:"coefs"`
	Alpha1  rat      `json:"alpha1"`
	Classes []string `json:"classes"`
	Cbox    rat      `json:"cbox"`  // feasible interval [0, cbox] (constraint option "box")
	Chalf   rat      `json:"chalf"` // feasible interval [0, chalf] (constraint option "half")
	Lambdas []rat    `json:"lambdas"`
	// channels
	Name  string  `json:"name"`
	Nx    int     `json:"nx"`
	Ny    int     `json:"ny"`
	W     [][]rat `json:"W"`
	Pstar []rat   `json:"pstar"`
	Qstar []rat   `json:"qstar"`
	P0s   [][]rat `json:"p0s"`
	Steps []int   `json:"steps"`
	Rad float64 `json:"rad"` // bowl: radius of the domain
	// lattice (w sum (x_i - m_i)^2): the routine / variant / initial step the case is constructed for
	Wt      float64 `json:"w"`
	For     string  `json:"for"`
	Variant string  `json:"variant"`
	Step    rat     `json:"step"`
	// options
	Combos     []combo  `json:"combos"`
	StartTypes []string `json:"starttypes"`

	index int
}

/* small expression helpers: every operation allocates its result, so no
 * receiver ever aliases an operand (aliasing is property C08's business) */

func cst(v float64) ConstScalar { return ConstFloat64(v) }
func mul(a, b ConstScalar) *Real64 {
	r := NullReal64()
	r.Mul(a, b)
	return r
}
func add(a, b ConstScalar) *Real64 {
	r := NullReal64()
	r.Add(a, b)
	return r
}
func sub(a, b ConstScalar) *Real64 {
	r := NullReal64()
	r.Sub(a, b)
	return r
}
func neg(a ConstScalar) *Real64 {
	r := NullReal64()
	r.Neg(a)
	return r
}
func softplus(a ConstScalar) *Real64 { // log(1 + exp(a))
	e := NullReal64()
	e.Exp(a)
	r := NullReal64()
	r.Log(add(e, cst(1)))
	return r
}

// objective builds the scalar objective of a case from the printed parameters.
func (c *caseT) objective() scalarF {
	switch c.Kind {
	case "quad", "quadhard":
		return func(x ConstVector) (MagicScalar, error) {
			var r ConstScalar = cst(0)
			for i := 0; i < c.N; i++ {
				for j := 0; j < c.N; j++ {
					if c.A[i][j] != 0 {
						r = add(r, mul(cst(0.5*c.A[i][j]), mul(x.ConstAt(i), x.ConstAt(j))))
					}
				}
			}
			for i := 0; i < c.N; i++ {
				r = sub(r, mul(cst(c.Bv[i]), x.ConstAt(i)))
			}
			return add(r, cst(0)), nil
		}
	case "sepconv":
		return func(x ConstVector) (MagicScalar, error) {
			var r ConstScalar = cst(0)
			for i := 0; i < c.N; i++ {
				z := sub(x.ConstAt(i), cst(c.M[i].f()))
				z2 := mul(z, z)
				r = add(r, z2)
				if c.K[i] != 0 {
					r = add(r, mul(cst(float64(c.K[i])), mul(z2, z2)))
				}
			}
			return add(r, cst(0)), nil
		}
	case "quartic":
		return func(x ConstVector) (MagicScalar, error) {
			var r ConstScalar = cst(0)
			for i := 0; i < c.N; i++ {
				z := sub(x.ConstAt(i), cst(c.M[i].f()))
				z2 := mul(z, z)
				r = add(r, mul(z2, z2))
			}
			return add(r, cst(0)), nil
		}
	case "logistic":
		return func(x ConstVector) (MagicScalar, error) {
			var r ConstScalar = cst(0)
			z := make([]ConstScalar, c.N)
			for i := 0; i < c.N; i++ {
				z[i] = sub(x.ConstAt(i), cst(c.M[i].f()))
				r = add(r, mul(cst(0.5*c.Lambda.f()), mul(z[i], z[i])))
			}
			for _, a := range c.Data {
				var t ConstScalar = cst(0)
				for j := 0; j < c.N; j++ {
					t = add(t, mul(cst(a[j]), z[j]))
				}
				r = add(r, add(softplus(t), softplus(neg(t))))
			}
			return add(r, cst(0)), nil
		}
	case "lattice":
		return func(x ConstVector) (MagicScalar, error) {
			var r ConstScalar = cst(0)
			for i := 0; i < c.N; i++ {
				z := sub(x.ConstAt(i), cst(c.M[i].f()))
				r = add(r, mul(cst(c.Wt), mul(z, z)))
			}
			return add(r, cst(0)), nil
		}
	case "bowl": // -sqrt(R^2 - |x - c|^2): NaN (value and all derivatives) outside the ball
		return func(x ConstVector) (MagicScalar, error) {
			var r ConstScalar = cst(c.Rad * c.Rad)
			for i := 0; i < c.N; i++ {
				z := sub(x.ConstAt(i), cst(c.M[i].f()))
				r = sub(r, mul(z, z))
			}
			q := NullReal64()
			q.Sqrt(r)
			return neg(q), nil
		}
	case "xlogx": // x log x - x on x > 0
		return func(x ConstVector) (MagicScalar, error) {
			l := NullReal64()
			l.Log(x.ConstAt(0))
			return sub(mul(x.ConstAt(0), l), x.ConstAt(0)), nil
		}
	case "rosen":
		return func(x ConstVector) (MagicScalar, error) {
			u := sub(cst(c.Ra), x.ConstAt(0))
			v := sub(x.ConstAt(1), mul(x.ConstAt(0), x.ConstAt(0)))
			return add(mul(u, u), mul(cst(c.Rb), mul(v, v))), nil
		}
	}
	return nil
}

// poly1d: the one-dimensional polynomial of a line1d case (Horner, no aliasing).
func (c *caseT) poly1d() func(ConstScalar) (MagicScalar, error) {
	return func(a ConstScalar) (MagicScalar, error) {
		var r ConstScalar = cst(0)
		for j := len(c.Coefs) - 1; j >= 0; j-- {
			r = mul(add(r, cst(c.Coefs[j].f())), a)
		}
		return add(r, cst(0)), nil
	}
}

// system builds the polynomial system of a polyroot case.
func (c *caseT) system() vectorF {
	return func(x ConstVector) (MagicVector, error) {
		if c.Form == "power" {
			p := mul(x.ConstAt(0), x.ConstAt(0))
			if c.Deg == 3 {
				p = mul(p, x.ConstAt(0))
			}
			return DenseReal64Vector{sub(p, cst(math.Pow(c.Ra, float64(c.Deg))))}, nil
		}
		y1 := sub(mul(x.ConstAt(0), x.ConstAt(0)), cst(c.Ra*c.Ra))
		y2 := sub(mul(x.ConstAt(0), x.ConstAt(1)), cst(c.Ra*c.Rb))
		return DenseReal64Vector{y1, y2}, nil
	}
}

// valGrad evaluates the ORIGINAL objective and its gradient at pt.
func valGrad(f scalarF, pt []float64) (float64, []float64) {
	x := NewDenseReal64Vector(pt)
	x.Variables(1)
	s, err := f(x)
	if err != nil {
		return math.NaN(), nil
	}
	g := make([]float64, len(pt))
	for i := range g {
		g[i] = s.GetDerivative(i)
	}
	return s.GetFloat64(), g
}

func residual(F vectorF, pt []float64) []float64 {
	x := NewDenseReal64Vector(pt)
	x.Variables(1)
	y, err := F(x)
	if err != nil {
		return []float64{math.NaN()}
	}
	return floats(y)
}

// constraint returns the user constraint of a start record (nil: none).
func (s *startRec) constraint(kind string) func([]float64) bool {
	switch kind {
	case "box":
		return func(x []float64) bool {
			for i := range x {
				if !(x[i] >= s.Box.Lo[i] && x[i] <= s.Box.Hi[i]) {
					return false
				}
			}
			return true
		}
	case "half":
		if !s.Half.Has {
			return nil
		}
		k, t := s.Half.K-1, s.Half.T.f()
		if s.Half.Side == 1 {
			return func(x []float64) bool { return x[k] >= t }
		}
		return func(x []float64) bool { return x[k] <= t }
	}
	return nil
}

func ratsF(r []rat) []float64 {
	o := make([]float64, len(r))
	for i := range r {
		o[i] = r[i].f()
	}
	return o
}

func dist(a, b []float64) float64 {
	s := 0.0
	for i := range a {
		s += (a[i] - b[i]) * (a[i] - b[i])
	}
	return math.Sqrt(s)
}
