package main

import (
	"encoding/binary"
	"fmt"
	"math"

	. "github.com/pbenner/autodiff"
)

// ev is one trace event; every field is present in every event (TLC compares
// records field by field).  Identities p/y/g: 0 = absent.
type ev struct {
	E        string `json:"e"`
	Run      int    `json:"run"`
	Skip     int    `json:"skip"` // events from this one to the next begin (position independent)
	Algo     string `json:"algo"`
	Maxit    int    `json:"maxit"`
	HasHook  bool   `json:"hashook"`
	HasCons  bool   `json:"hascons"`
	Sc       bool   `json:"sc"`
	HookKind string `json:"hookkind"`
	IterBy   string `json:"iterby"`
	Fixed    bool   `json:"fixed"`
	P        int    `json:"p"`
	Y        int    `json:"y"`
	G        int    `json:"g"`
	B        bool   `json:"b"`
	Ok       bool   `json:"ok"`
	StopOK   bool   `json:"stopok"`
	ConsOK   bool   `json:"consok"`
	NearMin  bool   `json:"nearmin"`
	StartOK  bool   `json:"startok"`
}

const eventCapMsg = "verif: event cap exceeded (routine does not terminate)"

// rec records the callback invocations of one run and assigns identities by
// bit-exact float64 content.
type rec struct {
	evs      []ev
	pt       map[string]int
	val      map[string]int
	gr       map[string]int
	nEval    int
	nHook    int
	nCons    int
	hookStop int // the hook answers "stop" at this call (0: never)
	stopped  bool
	limit    int
	// what the harness needs for the step-based stopping rules
	evalPts [][]float64 // (only kept when keepPts) point of every evaluation
	keepPts bool
	hookPts [][]float64
	tail    []string // the last raw callback arguments (for violation reports)
	xtype   string   // storage type of the start vector
}

func (r *rec) note(kind string, p []float64, extra interface{}) {
	if len(r.tail) >= 12 {
		r.tail = r.tail[1:]
	}
	r.tail = append(r.tail, fmt.Sprintf("%s %v %v", kind, p, extra))
}

func newRec(hookStop, limit int) *rec {
	return &rec{pt: map[string]int{}, val: map[string]int{}, gr: map[string]int{}, hookStop: hookStop, limit: limit}
}

func key(fs []float64) string {
	b := make([]byte, 8*len(fs))
	for i, f := range fs {
		binary.LittleEndian.PutUint64(b[8*i:], math.Float64bits(f))
	}
	return string(b)
}

func ident(m map[string]int, fs []float64) int {
	if fs == nil {
		return 0
	}
	k := key(fs)
	if id, ok := m[k]; ok {
		return id
	}
	id := len(m) + 1
	m[k] = id
	return id
}

func (r *rec) put(e ev) {
	if len(r.evs) >= r.limit {
		panic(eventCapMsg)
	}
	r.evs = append(r.evs, e)
}

// stuck: the last 256 callbacks concerned at most two distinct points - the routine repeats itself
// (as opposed to a run that is merely slow: it keeps visiting new points).
func (r *rec) stuck() bool {
	n := len(r.evs)
	if n < 256 {
		return false
	}
	seen := map[int]bool{}
	for _, e := range r.evs[n-256:] {
		seen[e.P] = true
	}
	return len(seen) <= 2
}

func (r *rec) eval(p, y, g []float64) {
	r.nEval++
	if r.keepPts {
		r.evalPts = append(r.evalPts, append([]float64{}, p...))
	}
	r.note("eval", p, g)
	r.put(ev{E: "eval", P: ident(r.pt, p), Y: ident(r.val, y), G: ident(r.gr, g)})
}

func (r *rec) cons(p []float64, res bool) bool {
	r.nCons++
	r.note("cons", p, res)
	r.put(ev{E: "cons", P: ident(r.pt, p), B: res})
	return res
}

// hook logs a hook call and returns the answer of the user hook.
func (r *rec) hook(p, g, y []float64, ok bool) bool {
	r.nHook++
	stop := r.hookStop > 0 && r.nHook >= r.hookStop
	r.hookPts = append(r.hookPts, append([]float64{}, p...))
	r.note("hook", p, g)
	r.put(ev{E: "hook", P: ident(r.pt, p), G: ident(r.gr, g), Y: ident(r.val, y), B: stop, Ok: ok})
	if stop {
		r.stopped = true
	}
	return stop
}

/* projections of autodiff objects to float slices */

func floats(v ConstVector) []float64 {
	r := make([]float64, v.Dim())
	for i := range r {
		r[i] = v.ConstAt(i).GetFloat64()
	}
	return r
}

func matFloats(m ConstMatrix) []float64 {
	n, k := m.Dims()
	r := make([]float64, 0, n*k)
	for i := 0; i < n; i++ {
		for j := 0; j < k; j++ {
			r = append(r, m.ConstAt(i, j).GetFloat64())
		}
	}
	return r
}

// derivs: first derivatives, followed by the Hessian (row major) for order 2.
func derivs(s ConstScalar) []float64 {
	n := s.GetN()
	r := make([]float64, 0, n+n*n)
	for i := 0; i < n; i++ {
		r = append(r, s.GetDerivative(i))
	}
	if s.GetOrder() >= 2 {
		for i := 0; i < n; i++ {
			for j := 0; j < n; j++ {
				r = append(r, s.GetHessian(i, j))
			}
		}
	}
	return r
}

type scalarF = func(ConstVector) (MagicScalar, error)
type vectorF = func(ConstVector) (MagicVector, error)

// wrapF: the recording closure around the user objective.
func (r *rec) wrapF(f scalarF) scalarF {
	return func(x ConstVector) (MagicScalar, error) {
		s, err := f(x)
		if err == nil {
			r.eval(floats(x), []float64{s.GetFloat64()}, derivs(s))
		}
		return s, err
	}
}

func (r *rec) wrapFv(f vectorF) vectorF {
	return func(x ConstVector) (MagicVector, error) {
		y, err := f(x)
		if err == nil {
			vals := make([]float64, y.Dim())
			jac := []float64{}
			for i := 0; i < y.Dim(); i++ {
				yi := y.ConstAt(i)
				vals[i] = yi.GetFloat64()
				for j := 0; j < yi.GetN(); j++ {
					jac = append(jac, yi.GetDerivative(j))
				}
			}
			r.eval(floats(x), vals, jac)
		}
		return y, err
	}
}

func norm2(v []float64) float64 {
	s := 0.0
	for _, x := range v {
		s += x * x
	}
	return math.Sqrt(s)
}

func bitsEqual(a, b []float64) bool {
	if len(a) != len(b) {
		return false
	}
	for i := range a {
		if math.Float64bits(a[i]) != math.Float64bits(b[i]) {
			return false
		}
	}
	return true
}
