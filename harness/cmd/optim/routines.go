package main

import (
	"math"
	"math/rand"
	"strings"

	. "github.com/pbenner/autodiff"
	"github.com/pbenner/autodiff/algorithm/adam"
	"github.com/pbenner/autodiff/algorithm/bfgs"
	"github.com/pbenner/autodiff/algorithm/blahut"
	"github.com/pbenner/autodiff/algorithm/gradientDescent"
	"github.com/pbenner/autodiff/algorithm/lineSearch"
	"github.com/pbenner/autodiff/algorithm/newton"
	"github.com/pbenner/autodiff/algorithm/rprop"
	"github.com/pbenner/autodiff/algorithm/saga"

	"verifharness/vh"
)

// problem: one objective instance with one start point and one constraint set.
type problem struct {
	c     *caseT
	si    int
	f     scalarF // scalar objective (nil for polyroot / channel)
	F     vectorF // polynomial system (polyroot)
	x0    []float64
	xstar []float64
	cons  func([]float64) bool
	eps   float64
}

// result: what the caller finds when the routine is back.
type result struct {
	pt      []float64 // returned point (nil: none)
	err     bool      // error or panic
	msg     string
	startOK bool
	stopOK  bool
	nearOK  *bool // set by routines with their own notion of "near the optimum"
	consOK  *bool // set by routines whose returned point is not a point of the case's space (line search)
	info    vh.M
}

type routine struct {
	name     string
	families []string
	variants []string
	hookKind string
	iterBy   string
	fixed    bool
	consOpt  bool // the routine has a Constraints option
	hookOpt  bool
	smallCap int // value used for the option "maxit small"
	bigCap   int // cap used when the option says "default" (0: pass no MaxIterations at all)
	epsDiv   int // epsilon = 10^-(epsexp/epsDiv) for slowly converging routines
	run      func(pr *problem, variant string, o combo, maxit int, rng *rand.Rand, r *rec) result
}

func has(l []string, s string) bool {
	for _, x := range l {
		if x == s {
			return true
		}
	}
	return false
}

var scalarFamilies = []string{"quad", "sepconv", "quartic", "logistic", "rosen", "bowl", "xlogx"}

// the routines that have an iteration cap or give up with an error also get the badly scaled quadratics with an
// epsilon that float64 cannot reach (gradient descent has neither: it would never return - property C20)
var hardFamilies = append(append([]string{}, scalarFamilies...), "quadhard")

var routines = []*routine{
	{name: "bfgs", families: hardFamilies, variants: []string{""}, hookKind: "gy", iterBy: "eval", consOpt: true, hookOpt: true, smallCap: 3, bigCap: 60, epsDiv: 1, run: runBfgs},
	{name: "newton.root", families: []string{"polyroot"}, variants: []string{"None"}, hookKind: "gy", iterBy: "eval", consOpt: true, hookOpt: true, smallCap: 3, bigCap: 25, epsDiv: 1, run: runNewtonRoot},
	{name: "newton.crit", families: hardFamilies, variants: []string{"None", "LDL", "Eigenvalue"}, hookKind: "g", iterBy: "eval", consOpt: true, hookOpt: true, smallCap: 3, bigCap: 25, epsDiv: 1, run: runNewtonCrit},
	{name: "newton.min", families: hardFamilies, variants: []string{"None", "LDL", "Eigenvalue"}, hookKind: "gy", iterBy: "eval", consOpt: true, hookOpt: true, smallCap: 3, bigCap: 25, epsDiv: 1, run: runNewtonMin},
	{name: "rprop", families: append(append([]string{}, hardFamilies...), "lattice"), variants: []string{"1.2/0.5", "2/0.1", "1.5/0.8"}, hookKind: "gy", iterBy: "eval", consOpt: true, hookOpt: true, smallCap: 3, bigCap: 300, epsDiv: 1, run: runRprop},
	{name: "rprop.gradient", families: append(append([]string{}, hardFamilies...), "lattice"), variants: []string{"1.2/0.5", "2/0.1", "1.5/0.8"}, hookKind: "g", iterBy: "eval", consOpt: true, hookOpt: true, smallCap: 3, bigCap: 300, epsDiv: 1, run: runRpropGradient},
	{name: "gradientDescent", families: []string{"quad", "sepconv", "logistic", "bowl", "xlogx"}, variants: []string{"0.5", "1", "1.5"}, hookKind: "gy", iterBy: "eval", hookOpt: true, epsDiv: 1, run: runGradientDescent},
	{name: "adam", families: append(append([]string{}, scalarFamilies...), "lattice"), variants: []string{"0.05", "0.3"}, hookKind: "gy", iterBy: "eval", consOpt: true, hookOpt: true, smallCap: 3, bigCap: 300, epsDiv: 3, run: runAdam},
	{name: "adam.gradient", families: append(append([]string{}, scalarFamilies...), "lattice"), variants: []string{""}, hookKind: "g", iterBy: "eval", consOpt: true, hookOpt: true, smallCap: 3, bigCap: 200, epsDiv: 3, run: runAdamGradient},
	{name: "saga", families: []string{"quad"}, variants: []string{"dense1", "dense2", "sparse1", "sparse2"}, hookKind: "args", iterBy: "eval", hookOpt: true, smallCap: 3, bigCap: 300, epsDiv: 1, run: runSaga},
	{name: "lineSearch", families: append(append([]string{}, scalarFamilies...), "line1d"), variants: []string{"1", "0.1", "10", "1/short", "0.1/short", "poly"}, hookKind: "gy", iterBy: "eval", consOpt: true, hookOpt: true, smallCap: 3, bigCap: 20, epsDiv: 1, run: runLineSearch},
}

// startTypes: the storage types of the start vector printed by the spec (options record)
var startTypes = []string{"float64", "real64"}

var scalarTypeOf = map[string]ScalarType{"float64": Float64Type, "real64": Real64Type, "float32": Float32Type, "real32": Real32Type,
	"int": IntType, "int64": Int64Type, "int32": Int32Type, "int16": Int16Type, "int8": Int8Type}

// mkVec stores the start point in one of the printed storage types (the start points are integer vectors, so
// every element type holds them exactly); the chosen type is recorded in the run.
func mkVec(x []float64, rng *rand.Rand, r *rec) Vector {
	typ := startTypes[rng.Intn(len(startTypes))]
	r.xtype = typ
	for _, v := range x {
		if v != math.Trunc(v) || math.Abs(v) > 100 {
			typ, r.xtype = "float64", "float64" // (not an integer vector)
		}
	}
	dense := NewDenseFloat64Vector(append([]float64{}, x...))
	if strings.HasPrefix(typ, "sparse_") {
		return AsSparseVector(scalarTypeOf[strings.TrimPrefix(typ, "sparse_")], dense)
	}
	return AsDenseVector(scalarTypeOf[typ], dense)
}

func vecOrNil(v ConstVector) []float64 {
	if v == nil {
		return nil
	}
	// a typed nil slice inside the interface
	defer func() { recover() }()
	return floats(v)
}

func finish(xn ConstVector, err error, msg string) result {
	res := result{err: err != nil || msg != ""}
	if msg != "" {
		res.msg = "panic: " + msg
	} else if err != nil {
		res.msg = err.Error()
		if len(res.msg) > 200 {
			res.msg = res.msg[:200]
		}
	}
	if msg == "" && xn != nil {
		res.pt = vecOrNil(xn)
	}
	return res
}

func (pr *problem) gradStop(pt []float64) bool {
	if pt == nil {
		return false
	}
	y, g := valGrad(pr.f, pt)
	if g == nil || math.IsNaN(y) {
		return false // a point outside the objective's domain meets no stopping condition
	}
	return norm2(g) < pr.eps*(1+1e-9) // (false for a NaN gradient)
}

func (pr *problem) consVec(r *rec) func(x Vector) bool {
	return func(x Vector) bool { p := floats(x); return r.cons(p, pr.cons(p)) }
}
func (pr *problem) consConstVec(r *rec) func(x ConstVector) bool {
	return func(x ConstVector) bool { p := floats(x); return r.cons(p, pr.cons(p)) }
}

/* ---------------------------------------------------------------- BFGS */

func runBfgs(pr *problem, variant string, o combo, maxit int, rng *rand.Rand, r *rec) result {
	x0 := mkVec(pr.x0, rng, r)
	args := []interface{}{bfgs.Epsilon{Value: pr.eps}}
	if maxit >= 0 {
		args = append(args, bfgs.MaxIterations{Value: maxit})
	}
	if o.HookStop >= 0 {
		args = append(args, bfgs.Hook{Value: func(x, g ConstVector, y ConstScalar) bool {
			return r.hook(floats(x), floats(g), []float64{y.GetFloat64()}, true)
		}})
	}
	if pr.cons != nil {
		args = append(args, bfgs.Constraints{Value: pr.consVec(r)})
	}
	var xn Vector
	var err error
	msg := vh.Try(func() { xn, err = bfgs.Run(r.wrapF(pr.f), x0, args...) })
	res := finish(xn, err, msg)
	res.startOK = bitsEqual(floats(x0), pr.x0)
	res.stopOK = pr.gradStop(res.pt)
	return res
}

/* -------------------------------------------------------------- Newton */

func newtonArgs(pr *problem, variant string, maxit int, r *rec) []interface{} {
	args := []interface{}{newton.Epsilon{Value: pr.eps}, newton.HessianModification{Value: variant}}
	if maxit >= 0 {
		args = append(args, newton.MaxIterations{Value: maxit})
	}
	if pr.cons != nil {
		args = append(args, newton.Constraints{Value: pr.consVec(r)})
	}
	return args
}

func runNewtonRoot(pr *problem, variant string, o combo, maxit int, rng *rand.Rand, r *rec) result {
	x0 := mkVec(pr.x0, rng, r)
	args := newtonArgs(pr, variant, maxit, r)
	if o.HookStop >= 0 {
		args = append(args, newton.HookRoot{Value: func(x ConstVector, J ConstMatrix, y ConstVector) bool {
			return r.hook(floats(x), matFloats(J), floats(y), true)
		}})
	}
	var xn Vector
	var err error
	msg := vh.Try(func() { xn, err = newton.RunRoot(r.wrapFv(pr.F), x0, args...) })
	res := finish(xn, err, msg)
	res.startOK = bitsEqual(floats(x0), pr.x0)
	if res.pt != nil {
		res.stopOK = norm2(residual(pr.F, res.pt)) < pr.eps*(1+1e-9)
	}
	return res
}

func runNewtonCrit(pr *problem, variant string, o combo, maxit int, rng *rand.Rand, r *rec) result {
	x0 := mkVec(pr.x0, rng, r)
	args := newtonArgs(pr, variant, maxit, r)
	if o.HookStop >= 0 {
		// RunCrit: the hook receives (x, Hessian, gradient); there is no function value
		args = append(args, newton.HookCrit{Value: func(x ConstVector, H ConstMatrix, g ConstVector) bool {
			return r.hook(floats(x), append(floats(g), matFloats(H)...), nil, true)
		}})
	}
	var xn Vector
	var err error
	msg := vh.Try(func() { xn, err = newton.RunCrit(r.wrapF(pr.f), x0, args...) })
	res := finish(xn, err, msg)
	res.startOK = bitsEqual(floats(x0), pr.x0)
	res.stopOK = pr.gradStop(res.pt)
	return res
}

func runNewtonMin(pr *problem, variant string, o combo, maxit int, rng *rand.Rand, r *rec) result {
	x0 := mkVec(pr.x0, rng, r)
	args := newtonArgs(pr, variant, maxit, r)
	if o.HookStop >= 0 {
		args = append(args, newton.HookMin{Value: func(x, g ConstVector, H ConstMatrix, y ConstScalar) bool {
			return r.hook(floats(x), append(floats(g), matFloats(H)...), []float64{y.GetFloat64()}, true)
		}})
	}
	var xn Vector
	var err error
	msg := vh.Try(func() { xn, err = newton.RunMin(r.wrapF(pr.f), x0, args...) })
	res := finish(xn, err, msg)
	res.startOK = bitsEqual(floats(x0), pr.x0)
	res.stopOK = pr.gradStop(res.pt)
	return res
}

/* --------------------------------------------------------------- Rprop */

func etaOf(variant string) []float64 {
	switch variant {
	case "2/0.1":
		return []float64{2, 0.1}
	case "1.5/0.8":
		return []float64{1.5, 0.8}
	}
	return []float64{1.2, 0.5}
}

func runRprop(pr *problem, variant string, o combo, maxit int, rng *rand.Rand, r *rec) result {
	x0 := mkVec(pr.x0, rng, r)
	step := []float64{0.01, 0.1, 1}[rng.Intn(3)]
	if pr.c.Kind == "lattice" {
		step = pr.c.Step.f() // the step lattice the case is constructed for
	}
	args := []interface{}{rprop.Epsilon{Value: pr.eps}}
	if maxit >= 0 {
		args = append(args, rprop.MaxIterations{Value: maxit})
	}
	if o.HookStop >= 0 {
		args = append(args, rprop.Hook{Value: func(g, st []float64, x ConstVector, s ConstScalar) bool {
			return r.hook(floats(x), append([]float64{}, g...), []float64{s.GetFloat64()}, true)
		}})
	}
	if pr.cons != nil {
		args = append(args, rprop.Constraints{Value: pr.consVec(r)})
	}
	var f scalarF = r.wrapF(pr.f)
	var xn Vector
	var err error
	msg := vh.Try(func() { xn, err = rprop.Run(f, x0, step, etaOf(variant), args...) })
	res := finish(xn, err, msg)
	res.startOK = bitsEqual(floats(x0), pr.x0)
	res.stopOK = pr.gradStop(res.pt)
	res.info = vh.M{"step_init": step}
	return res
}

// gradFn: the gradient-only interface (x, gradient DenseFloat64Vector) error
func (pr *problem) gradFn(r *rec) func(x, g DenseFloat64Vector) error {
	return func(x, g DenseFloat64Vector) error {
		p := append([]float64{}, x...)
		_, gr := valGrad(pr.f, p)
		copy(g, gr)
		r.eval(p, nil, gr)
		return nil
	}
}

func runRpropGradient(pr *problem, variant string, o combo, maxit int, rng *rand.Rand, r *rec) result {
	x0 := NewDenseFloat64Vector(append([]float64{}, pr.x0...))
	step := []float64{0.01, 0.1, 1}[rng.Intn(3)]
	if pr.c.Kind == "lattice" {
		step = pr.c.Step.f() // the step lattice the case is constructed for
	}
	args := []interface{}{rprop.Epsilon{Value: pr.eps}}
	if maxit >= 0 {
		args = append(args, rprop.MaxIterations{Value: maxit})
	}
	if o.HookStop >= 0 {
		args = append(args, rprop.Hook{Value: func(g, st []float64, x ConstVector, s ConstScalar) bool {
			var y []float64
			if s != nil {
				y = []float64{s.GetFloat64()}
			}
			return r.hook(floats(x), append([]float64{}, g...), y, true)
		}})
	}
	if pr.cons != nil {
		args = append(args, rprop.ConstConstraints{Value: pr.consConstVec(r)})
	}
	var xn ConstVector
	var err error
	msg := vh.Try(func() {
		xn, err = rprop.RunGradient(rprop.DenseGradientF(pr.gradFn(r)), x0, step, etaOf(variant), args...)
	})
	res := finish(xn, err, msg)
	res.startOK = bitsEqual(floats(x0), pr.x0)
	res.stopOK = pr.gradStop(res.pt)
	res.info = vh.M{"step_init": step}
	return res
}

/* ---------------------------------------------------- gradient descent */

func runGradientDescent(pr *problem, variant string, o combo, maxit int, rng *rand.Rand, r *rec) result {
	x0 := mkVec(pr.x0, rng, r)
	// admissible step sizes: step < 2/L with L <= sqrt(lip2) (printed by TLC)
	frac := map[string]float64{"0.5": 0.5, "1": 1, "1.5": 1.5}[variant]
	step := frac / math.Sqrt(pr.c.Lip2.f())
	args := []interface{}{gradientDescent.Epsilon{Value: pr.eps}}
	if o.HookStop >= 0 {
		args = append(args, gradientDescent.Hook{Value: func(g []float64, x ConstVector, s ConstScalar) bool {
			return r.hook(floats(x), append([]float64{}, g...), []float64{s.GetFloat64()}, true)
		}})
	}
	var xn Vector
	var err error
	msg := vh.Try(func() { xn, err = gradientDescent.Run(r.wrapF(pr.f), x0, step, args...) })
	res := finish(xn, err, msg)
	res.startOK = bitsEqual(floats(x0), pr.x0)
	res.stopOK = pr.gradStop(res.pt)
	res.info = vh.M{"step": step}
	return res
}

/* ---------------------------------------------------------------- Adam */

func runAdam(pr *problem, variant string, o combo, maxit int, rng *rand.Rand, r *rec) result {
	x0 := mkVec(pr.x0, rng, r)
	step := map[string]float64{"0.05": 0.05, "0.3": 0.3}[variant]
	if pr.c.Kind == "lattice" {
		step = pr.c.Step.f()
	}
	args := []interface{}{adam.Epsilon{Value: pr.eps}, adam.StepSize{Value: step}}
	if maxit >= 0 {
		args = append(args, adam.MaxIterations{Value: maxit})
	}
	if o.HookStop >= 0 {
		args = append(args, adam.Hook{Value: func(x, g ConstVector, y ConstScalar) bool {
			return r.hook(floats(x), floats(g), []float64{y.GetFloat64()}, true)
		}})
	}
	if pr.cons != nil {
		args = append(args, adam.Constraints{Value: pr.consVec(r)})
	}
	var f scalarF = r.wrapF(pr.f)
	var xn Vector
	var err error
	msg := vh.Try(func() { xn, err = adam.Run(f, x0, args...) })
	res := finish(xn, err, msg)
	res.startOK = bitsEqual(floats(x0), pr.x0)
	res.stopOK = pr.gradStop(res.pt)
	return res
}

func runAdamGradient(pr *problem, variant string, o combo, maxit int, rng *rand.Rand, r *rec) result {
	x0 := NewDenseFloat64Vector(append([]float64{}, pr.x0...))
	args := []interface{}{adam.Epsilon{Value: pr.eps}} // RunGradient has no StepSize option
	if maxit >= 0 {
		args = append(args, adam.MaxIterations{Value: maxit})
	}
	if o.HookStop >= 0 {
		args = append(args, adam.Hook{Value: func(x, g ConstVector, y ConstScalar) bool {
			var yv []float64
			if y != nil {
				yv = []float64{y.GetFloat64()}
			}
			return r.hook(floats(x), floats(g), yv, true)
		}})
	}
	if pr.cons != nil {
		args = append(args, adam.ConstConstraints{Value: pr.consConstVec(r)})
	}
	var xn ConstVector
	var err error
	msg := vh.Try(func() { xn, err = adam.RunGradient(adam.DenseGradientF(pr.gradFn(r)), x0, args...) })
	res := finish(xn, err, msg)
	res.startOK = bitsEqual(floats(x0), pr.x0)
	res.stopOK = pr.gradStop(res.pt)
	return res
}

/* ---------------------------------------------------------------- SAGA */

// The quadratic as a finite sum: f_i(x) = 1/2 (l_i'x - c_i)^2 with l_i the
// columns of L; the shift d is the Tikhonov regularisation constant.
func runSaga(pr *problem, variant string, o combo, maxit int, rng *rand.Rand, r *rec) result {
	c := pr.c
	n := c.N
	col := func(i int) []float64 {
		l := make([]float64, n)
		for k := 0; k < n; k++ {
			l[k] = c.L[k][i]
		}
		return l
	}
	lmax := 0.0
	for i := 0; i < n; i++ {
		l := col(i)
		if s := norm2(l) * norm2(l); s > lmax {
			lmax = s
		}
	}
	gamma := 1.0 / (3.0 * (lmax + c.D))
	seed := rng.Int63n(1000)
	r.keepPts = true
	// residual w_i = l_i'x - c_i ; gradient of f_i = w_i l_i
	wOf := func(i int, x DenseFloat64Vector) float64 {
		w := -c.C[i]
		for k := 0; k < n; k++ {
			w += c.L[k][i] * x[k]
		}
		return w
	}
	log := func(x DenseFloat64Vector) { r.eval(append([]float64{}, x...), nil, nil) }
	var f interface{}
	switch variant {
	case "dense1":
		f = saga.Objective1Dense(func(i int, x DenseFloat64Vector) (float64, float64, DenseFloat64Vector, error) {
			log(x)
			w := wOf(i, x)
			return 0.5 * w * w, w, NewDenseFloat64Vector(col(i)), nil
		})
	case "dense2":
		f = saga.WrapperDense(func(i int, x Vector, y MagicScalar) error {
			log(AsDenseFloat64Vector(x))
			var t ConstScalar = cst(-c.C[i])
			for k := 0; k < n; k++ {
				t = add(t, mul(cst(c.L[k][i]), x.ConstAt(k)))
			}
			y.Set(mul(cst(0.5), mul(t, t)))
			return nil
		})
	case "sparse1", "sparse2":
		sp := func(i int, scale float64) SparseConstFloat64Vector {
			idx, val := []int{}, []float64{}
			for k, v := range col(i) {
				if v != 0 {
					idx = append(idx, k)
					val = append(val, v*scale)
				}
			}
			return NewSparseConstFloat64Vector(idx, val, n)
		}
		if variant == "sparse1" {
			f = saga.Objective1Sparse(func(i int, x DenseFloat64Vector) (float64, float64, SparseConstFloat64Vector, error) {
				log(x)
				w := wOf(i, x)
				return 0.5 * w * w, w, sp(i, 1), nil
			})
		} else {
			f = saga.Objective2Sparse(func(i int, x DenseFloat64Vector) (float64, SparseConstFloat64Vector, error) {
				log(x)
				w := wOf(i, x)
				return 0.5 * w * w, sp(i, w), nil
			})
		}
	}
	x0 := mkVec(pr.x0, rng, r)
	args := []interface{}{saga.Epsilon{Value: pr.eps}, saga.Gamma{Value: gamma}, saga.Seed{Value: seed}}
	if maxit >= 0 {
		args = append(args, saga.MaxIterations{Value: maxit})
	}
	if c.D != 0 {
		args = append(args, saga.TikhonovRegularization{Value: c.D})
	}
	prev := append([]float64{}, pr.x0...) // the point of the previous epoch
	epoch := 0
	relStep := func(xs, x1 []float64) float64 {
		maxX, maxD := 0.0, 0.0
		for i := range x1 {
			maxX = math.Max(maxX, math.Abs(x1[i]))
			maxD = math.Max(maxD, math.Abs(x1[i]-xs[i]))
		}
		if maxX != 0 {
			return maxD / maxX
		}
		return maxD
	}
	if o.HookStop >= 0 {
		args = append(args, saga.Hook{Value: func(x ConstVector, delta, lambda ConstScalar, i int) bool {
			p := floats(x)
			// documented arguments: the relative step of this epoch, the regularisation constant, the epoch
			want := relStep(prev, p)
			ok := math.Abs(delta.GetFloat64()-want) <= 1e-12*(1+want) && i == epoch &&
				math.Abs(lambda.GetFloat64()-c.D) <= 1e-9*(1+c.D)
			prev = p
			epoch++
			return r.hook(p, nil, nil, ok)
		}})
	}
	var xn Vector
	var err error
	msg := vh.Try(func() { xn, _, err = saga.Run(f, n, x0, args...) })
	res := finish(xn, err, msg)
	res.startOK = bitsEqual(floats(x0), pr.x0)
	// stopping rule: relative step of the last epoch <= epsilon * gamma.  The point at which the
	// last epoch started is the point of its first evaluation.
	epochs := r.nEval/n - 1
	if res.pt != nil && epochs >= 1 && len(r.evalPts) >= n*epochs+1 {
		xs := r.evalPts[n*epochs]
		res.stopOK = relStep(xs, res.pt) <= pr.eps*gamma*(1+1e-9)
	}
	if res.pt != nil {
		maxX := 1.0
		for _, v := range res.pt {
			maxX = math.Max(maxX, math.Abs(v))
		}
		d := dist(res.pt, pr.xstar)
		ok := d <= 20*pr.eps*math.Sqrt(c.Invb2.f())*maxX+1e-12
		res.nearOK = &ok
		res.info = vh.M{"gamma": gamma, "seed": seed, "epochs": epochs, "dist_over_tol": d / (20*pr.eps*math.Sqrt(c.Invb2.f())*maxX + 1e-12)}
	}
	r.evalPts = nil
	return res
}

/* --------------------------------------------------------- line search */

func lineVariant(variant string) (alpha1, scale float64) {
	scale = 1
	if strings.HasSuffix(variant, "/short") {
		scale = 1.0 / 128
		variant = strings.TrimSuffix(variant, "/short")
	}
	return map[string]float64{"1": 1, "0.1": 0.1, "10": 10}[variant], scale
}

func runLineSearch(pr *problem, variant string, o combo, maxit int, rng *rand.Rand, r *rec) result {
	alpha1, scale := lineVariant(variant)
	// one-dimensional restriction along the steepest-descent direction at the start point ("short": the
	// direction is scaled by 1/128, so that the first trial steps are far too short and the curvature
	// condition decides); "poly": the case itself is a one-dimensional polynomial with its own first step
	var g0 []float64
	if variant != "poly" {
		_, g0 = valGrad(pr.f, pr.x0)
	}
	d := make([]float64, len(g0))
	for i := range g0 {
		d[i] = -g0[i] * scale
	}
	point := func(alpha float64) []float64 {
		p := make([]float64, len(d))
		for i := range d {
			p[i] = pr.x0[i] + alpha*d[i]
		}
		return p
	}
	phi := func(alpha ConstScalar) (MagicScalar, error) {
		x := make(DenseReal64Vector, len(d))
		for i := range d {
			x[i] = add(cst(pr.x0[i]), mul(cst(d[i]), alpha))
		}
		return pr.f(x)
	}
	if variant == "poly" {
		phi = pr.c.poly1d()
		alpha1 = pr.c.Alpha1.f()
	}
	wrapped := func(alpha ConstScalar) (MagicScalar, error) {
		s, err := phi(alpha)
		if err == nil {
			r.eval([]float64{alpha.GetFloat64()}, []float64{s.GetFloat64()}, derivs(s))
		}
		return s, err
	}
	args := []interface{}{lineSearch.Parameters{Alpha1: alpha1, MaxEval: maxit}}
	if o.HookStop >= 0 {
		args = append(args, lineSearch.Hook{Value: func(a, y, g ConstScalar) bool {
			return r.hook([]float64{a.GetFloat64()}, []float64{g.GetFloat64()}, []float64{y.GetFloat64()}, true)
		}})
	}
	consAt := func(a float64) bool {
		if variant == "poly" {
			return pr.cons([]float64{a})
		}
		return pr.cons(point(a))
	}
	if pr.cons != nil {
		args = append(args, lineSearch.Constraints{Value: func(a ConstScalar) bool {
			return r.cons([]float64{a.GetFloat64()}, consAt(a.GetFloat64()))
		}})
	}
	var an Scalar
	var err error
	msg := vh.Try(func() { an, err = lineSearch.Run(wrapped, Float64Type, args...) })
	res := result{err: err != nil || msg != "", startOK: true}
	if msg != "" {
		res.msg = "panic: " + msg
	} else if err != nil {
		res.msg = err.Error()
	}
	if msg == "" && an != nil {
		a := an.GetFloat64()
		res.pt = []float64{a}
		if pr.cons != nil {
			ok := consAt(a)
			res.consOK = &ok
		}
		// strong Wolfe conditions with the documented constants c1 = 1e-4, c2 = 0.9
		ev := func(alpha float64) (float64, float64) {
			x := NewReal64(alpha)
			Variables(1, x)
			s, e := phi(x)
			if e != nil {
				return math.NaN(), math.NaN()
			}
			return s.GetFloat64(), s.GetDerivative(0)
		}
		y0, dy0 := ev(0)
		ya, dya := ev(a)
		c1, c2 := 1e-4, 0.9
		slack := 1e-12 * (math.Abs(y0) + math.Abs(ya) + 1e-300)
		res.stopOK = ya <= y0+c1*a*dy0+slack && math.Abs(dya) <= -c2*dy0*(1+1e-12)
		res.info = vh.M{"alpha": a, "phi0": y0, "dphi0": dy0, "phi": ya, "dphi": dya}
	}
	return res
}

/* -------------------------------------------------------------- Blahut */

type chanProblem struct {
	c     *caseT
	W     [][]float64
	p0    []float64
	steps int
	naive bool
	lambda float64
}

// divergences D_x = sum_y W(y|x) log(W(y|x)/q(y)) in nats, q the output distribution of p
func chanDiv(W [][]float64, p []float64) []float64 {
	ny := len(W[0])
	q := make([]float64, ny)
	for x := range W {
		for y := 0; y < ny; y++ {
			q[y] += p[x] * W[x][y]
		}
	}
	D := make([]float64, len(W))
	for x := range W {
		for y := 0; y < ny; y++ {
			if W[x][y] > 0 {
				D[x] += W[x][y] * math.Log(W[x][y]/q[y])
			}
		}
	}
	return D
}

func mutualInfo(W [][]float64, p []float64) float64 {
	D := chanDiv(W, p)
	s := 0.0
	for x := range p {
		if p[x] > 0 {
			s += p[x] * D[x]
		}
	}
	return s
}

// the functional the hook reports (in bits): log2 sum_x p_x exp(D_x(p))
func hookJ(W [][]float64, p []float64) float64 {
	D := chanDiv(W, p)
	s := 0.0
	for x := range p {
		if p[x] > 0 {
			s += p[x] * math.Exp(D[x])
		}
	}
	return math.Log(s) / math.Log(2)
}

func runBlahut(cp *chanProblem, o combo, r *rec) result {
	W := cp.W
	prev := append([]float64{}, cp.p0...)
	hook := func(p []float64, J float64) bool {
		// J is the capacity estimate of the iteration; accept it as the functional at the point the
		// iteration started from or at the point passed (the property text does not fix which)
		ok := math.Abs(J-hookJ(W, prev)) <= 1e-9 || math.Abs(J-hookJ(W, p)) <= 1e-9
		prev = append([]float64{}, p...)
		return r.hook(p, nil, nil, ok)
	}
	var out []float64
	var startOK bool
	var msg string
	if cp.naive {
		p0 := append([]float64{}, cp.p0...)
		ch := make([][]float64, len(W))
		for i := range W {
			ch[i] = append([]float64{}, W[i]...)
		}
		msg = vh.Try(func() {
			out = blahut.RunNaive(ch, p0, cp.steps, blahut.HookNaive{Value: func(p []float64, J float64) bool { return hook(append([]float64{}, p...), J) }},
				blahut.Lambda{Value: cp.lambda})
		})
		startOK = bitsEqual(p0, cp.p0)
	} else {
		flat := []float64{}
		for i := range W {
			flat = append(flat, W[i]...)
		}
		ch := NewDenseFloat64Matrix(flat, len(W), len(W[0]))
		p0 := NewDenseFloat64Vector(append([]float64{}, cp.p0...))
		msg = vh.Try(func() {
			v := blahut.Run(ch, p0, cp.steps, blahut.Hook{Value: func(p Vector, J Scalar) bool { return hook(floats(p), J.GetFloat64()) }}, blahut.Lambda{Value: cp.lambda})
			out = floats(v)
		})
		startOK = bitsEqual(floats(p0), cp.p0)
	}
	res := result{err: msg != "", startOK: startOK}
	if msg != "" {
		res.msg = "panic: " + msg
		return res
	}
	res.pt = out
	// optimum of the fixed-step routine: after N steps from p0 the mutual information is within
	// D(p*||p0)/N of the capacity (Arimoto 1972); p* and the capacity come from the printed case
	pstar := ratsF(cp.c.Pstar)
	C := mutualInfo(W, pstar)
	kl := 0.0
	for x := range pstar {
		if pstar[x] > 0 {
			kl += pstar[x] * math.Log(pstar[x]/cp.p0[x])
		}
	}
	sum, okp := 0.0, true
	for _, v := range out {
		if math.IsNaN(v) || v < 0 {
			okp = false
		}
		sum += v
	}
	steps := r.nHook
	// the rate bound holds for the plain iteration (Lambda = 1) from a start that charges the support of p*; for the
	// relaxed iterations and for starts with zero entries only "the result is a probability distribution" is required.
	// NaN never passes: every comparison below is written so that a NaN operand makes it false.
	near := okp && math.Abs(sum-1) < 1e-9 && steps > 0
	if near && cp.lambda == 1 && !math.IsInf(kl, 0) {
		near = mutualInfo(W, out) >= C-kl/float64(steps)-1e-9
	}
	res.nearOK = &near
	res.info = vh.M{"capacity_nats": C, "mi_nats": mutualInfo(W, out), "kl_start": kl, "steps_done": steps}
	return res
}
