// Conformance driver for C07 (optimisers and root finders return points that
// meet their stopping condition).
//
//	optim run <cases.ndjson> <trace.ndjson> <results.ndjson>
//
// cases: printed by spec/Quadratics.tla (objective families with exact optima,
// start points, constraint sets, option combinations).  For every case, start
// point, applicable routine, routine variant and option combination (quick tier:
// a seeded sample) the REAL routine is called with recording closures around the
// user objective, hook and constraints.  One ndjson event per callback invocation
// plus begin/ret is written to the trace, which spec/OptimizerTrace.tla validates
// against the contract spec/OptimizerSkeleton.tla.  The driver only projects: it
// re-evaluates the ORIGINAL objective at the returned point and reports the
// documented stopping condition as a boolean, the distance to the optimum TLC
// printed, the constraint at the returned point and a bitwise digest of the start.
//
// Environment: VERIF_SEED, VERIF_TIER, OPTIM_START (first run index, used after a
// watchdog abort), OPTIM_ONLY (run key: replay exactly one run), OPTIM_TARGET
// (runs per routine).
package main

import (
	"encoding/json"
	"fmt"
	"hash/fnv"
	"math"
	"math/rand"
	"os"
	"sort"
	"strings"
	"sync"
	"time"

	"verifharness/vh"
)

type runSpec struct {
	key     string
	rt      *routine
	variant string
	ci, si  int
	o       combo
	// channels
	chanP0, chanSteps, chanLambda int
	naive             bool
}

func hash64(s string) uint64 {
	h := fnv.New64a()
	h.Write([]byte(s))
	return h.Sum64()
}

// applicable option combinations of a routine, de-duplicated after projection
func combosFor(rt *routine, all []combo) []combo {
	seen := map[combo]bool{}
	out := []combo{}
	for _, c := range all {
		if !rt.consOpt {
			c.Cons = "none"
		}
		if rt.name == "lineSearch" {
			c.EpsExp = 6 // the line search has no epsilon
		}
		if rt.smallCap == 0 {
			c.Maxit = -1
		}
		if !seen[c] {
			seen[c] = true
			out = append(out, c)
		}
	}
	return out
}

func buildRuns(cases []*caseT, combos []combo) []runSpec {
	runs := []runSpec{}
	for _, rt := range routines {
		cs := combosFor(rt, combos)
		for _, c := range cases {
			if !has(rt.families, c.Kind) {
				continue
			}
			if rt.name == "gradientDescent" && c.Lip2.N == 0 {
				continue
			}
			for si := range c.Starts {
				for _, v := range rt.variants {
					if (v == "poly") != (c.Kind == "line1d") {
						continue
					}
					if c.Kind == "lattice" && (rt.name != c.For || v != c.Variant) {
						continue // a lattice case is constructed for one routine and one variant
					}
					for _, o := range cs {
						if c.Kind == "line1d" && o.Cons != "none" && c.Form == "window" {
							continue
						}
						if c.Kind == "lattice" && (o.Cons != "half" || o.HookStop > 0) {
							continue
						}
						if o.Cons == "half" && !c.Starts[si].Half.Has && c.Kind != "line1d" {
							continue
						}
						if rt.name == "saga" && c.D == 0 && o.HookStop > 0 {
							// without a regulariser saga's hook panics (nil proximal operator): one hook setting is enough
							continue
						}
						key := fmt.Sprintf("%s|%s|c%d|s%d|e%d|m%d|h%d|%s", rt.name, v, c.index, si, o.EpsExp, o.Maxit, o.HookStop, o.Cons)
						runs = append(runs, runSpec{key: key, rt: rt, variant: v, ci: c.index, si: si, o: o})
					}
				}
			}
		}
	}
	for _, c := range cases {
		if c.Kind != "channel" {
			continue
		}
		for pi := range c.P0s {
			for sti := range c.Steps {
				for _, hs := range []int{0, 1, 3} {
					for _, naive := range []bool{false, true} {
						for li := range c.Lambdas {
							name := "blahut"
							if naive {
								name = "blahut.naive"
							}
							key := fmt.Sprintf("%s||c%d|p%d|t%d|h%d|l%d", name, c.index, pi, sti, hs, li)
							runs = append(runs, runSpec{key: key, ci: c.index, chanP0: pi, chanSteps: sti, chanLambda: li, naive: naive, o: combo{HookStop: hs, Cons: "none", Maxit: c.Steps[sti]}})
						}
					}
				}
			}
		}
	}
	return runs
}

func (rs *runSpec) routineName() string {
	if rs.rt != nil {
		return rs.rt.name
	}
	return strings.SplitN(rs.key, "|", 2)[0]
}

type watchdog struct {
	mu    sync.Mutex
	busy  bool
	start time.Time
	fire  func()
}

func (w *watchdog) begin(f func()) {
	w.mu.Lock()
	w.busy, w.start, w.fire = true, time.Now(), f
	w.mu.Unlock()
}
func (w *watchdog) end() { w.mu.Lock(); w.busy = false; w.mu.Unlock() }

func main() {
	if len(os.Args) < 5 || os.Args[1] != "run" {
		vh.Fatal("usage: optim run <cases.ndjson> <trace.ndjson> <results.ndjson>")
	}
	seed := int64(vh.EnvInt("VERIF_SEED", 1))
	tier := os.Getenv("VERIF_TIER")
	target := vh.EnvInt("OPTIM_TARGET", map[string]int{"thorough": 2500}[tier])
	if target == 0 {
		target = 140
	}
	startAt := vh.EnvInt("OPTIM_START", 0)
	runOffset := vh.EnvInt("OPTIM_RUN_OFFSET", 0)     // run ids continue across restarts
	eventOffset := vh.EnvInt("OPTIM_EVENT_OFFSET", 0) // so do event indices (field nb)
	only := os.Getenv("OPTIM_ONLY")

	cases := []*caseT{}
	var combos []combo
	err := vh.EachLine(os.Args[2], func(line []byte) error {
		c := &caseT{}
		if e := json.Unmarshal(line, c); e != nil {
			return e
		}
		if c.Kind == "options" {
			combos = c.Combos
			if len(c.StartTypes) > 0 {
				startTypes = c.StartTypes
			}
			return nil
		}
		cases = append(cases, c)
		return nil
	})
	if err != nil {
		vh.Fatal("cases:", err)
	}
	// TLC prints in a worker-dependent order: sort canonically by content
	keys := make([]string, len(cases))
	for i, c := range cases {
		b, _ := json.Marshal(c)
		keys[i] = string(b)
	}
	order := make([]int, len(cases))
	for i := range order {
		order[i] = i
	}
	sort.Slice(order, func(a, b int) bool { return keys[order[a]] < keys[order[b]] })
	sorted := make([]*caseT, len(cases))
	for i, j := range order {
		sorted[i] = cases[j]
		sorted[i].index = i
	}
	cases = sorted
	sortCombos(combos)

	all := buildRuns(cases, combos)
	// sampling is stratified by (routine, objective family): every family gets the same share of a routine's runs
	perRoutine := map[string]int{}
	perStratum := map[string]int{}
	families := map[string]map[string]bool{}
	// ... and within a family half of the share goes to the "free" runs (large cap, hook absent or never stopping):
	// only those can end by the stopping condition, which is what most of the property is about
	stratum := func(rs *runSpec) string {
		free := "bounded"
		if rs.rt != nil && rs.o.Maxit < 0 && rs.o.HookStop <= 0 {
			free = "free"
		}
		return rs.routineName() + "/" + cases[rs.ci].Kind + "/" + free
	}
	for i := range all {
		rn, fam := all[i].routineName(), cases[all[i].ci].Kind
		perRoutine[rn]++
		perStratum[stratum(&all[i])]++
		if families[rn] == nil {
			families[rn] = map[string]bool{}
		}
		if fam != "line1d" && fam != "lattice" { // taken completely, outside the sampling
			families[rn][fam] = true
		}
	}
	selected := []runSpec{}
	for i := range all {
		rs := all[i]
		if only != "" {
			if rs.key == only {
				selected = append(selected, rs)
			}
			continue
		}
		if f := os.Getenv("OPTIM_ROUTINE"); f != "" && !strings.Contains(","+f+",", ","+rs.routineName()+",") {
			continue // debugging aid: restrict to some routines
		}
		if cases[rs.ci].Kind == "line1d" || cases[rs.ci].Kind == "lattice" {
			// the boundary cases of spec/WolfeCases.tla are few and cheap: all of them, with every option combination
			selected = append(selected, rs)
			continue
		}
		tot := perStratum[stratum(&rs)]
		share := (target + len(families[rs.routineName()]) - 1) / len(families[rs.routineName()])
		if rs.rt != nil {
			share = (share + 1) / 2
		}
		if tot <= share || hash64(fmt.Sprintf("%d/%s", seed, rs.key))%uint64(tot) < uint64(share) {
			selected = append(selected, rs)
		}
	}
	if only != "" && len(selected) == 0 {
		vh.Fatal("OPTIM_ONLY: unknown run key", only)
	}

	trace := vh.NewOut(os.Args[3])
	out := vh.NewOut(os.Args[4])
	nEvents := eventOffset
	runID := runOffset
	wd := &watchdog{}
	limit := 15 * time.Second
	go func() {
		for {
			time.Sleep(time.Second)
			wd.mu.Lock()
			if wd.busy && time.Since(wd.start) > limit {
				wd.fire()
			}
			wd.mu.Unlock()
		}
	}()

	counts := map[string]int{}
	for idx := startAt; idx < len(selected); idx++ {
		rs := selected[idx]
		c := cases[rs.ci]
		runID++
		out.Put(vh.M{"kind": "journal", "index": idx, "key": rs.key, "run": runID})
		out.Flush()
		rng := rand.New(rand.NewSource(int64(hash64(fmt.Sprintf("%d/%s", seed, rs.key)) >> 1)))

		begin := ev{E: "begin", Run: runID, HasHook: rs.o.HookStop >= 0, HasCons: false}
		var res result
		hs := rs.o.HookStop
		if hs < 0 {
			hs = 0
		}
		r := newRec(hs, 12000)
		info := vh.M{"kind": "run", "run": runID, "index": idx, "key": rs.key, "routine": rs.routineName(), "variant": rs.variant,
			"family": c.Kind, "cons": rs.o.Cons, "case": c.index, "first_event": nEvents + 1}

		writeRun := func(evs []ev) {
			for i := range evs {
				evs[i].Run = runID
				evs[i].Skip = len(evs) - i
				trace.Put(evs[i])
			}
			nEvents += len(evs)
			info["events"] = len(evs)
			out.Put(sanitize(info))
			trace.Flush()
			out.Flush()
		}
		wd.begin(func() {
			// the routine did not return: an event the trace specification never accepts
			info["outcome"] = "timeout"
			writeRun([]ev{begin, {E: "timeout"}})
			vh.Summary(out, vh.M{"aborted": "timeout", "next_index": idx + 1, "next_run_offset": runID, "next_event_offset": nEvents,
				"selected": len(selected), "universe": len(all)})
			trace.Close()
			out.Close()
			os.Exit(0)
		})

		if rs.rt == nil { // Blahut
			W := make([][]float64, len(c.W))
			for i := range c.W {
				W[i] = ratsF(c.W[i])
			}
			cp := &chanProblem{c: c, W: W, p0: ratsF(c.P0s[rs.chanP0]), steps: c.Steps[rs.chanSteps], naive: rs.naive, lambda: c.Lambdas[rs.chanLambda].f()}
			begin.Algo, begin.Maxit, begin.HookKind, begin.IterBy, begin.Fixed, begin.Sc = rs.routineName(), cp.steps, "args", "hook", true, false
			begin.HasHook = true
			res = runBlahut(cp, rs.o, r)
			info["channel"] = c.Name
			info["lambda"] = cp.lambda
			info["p0"] = cp.p0
			// option class of the run (part of the violation signature)
			cl := "lambda<=1"
			if cp.lambda > 1 {
				cl = "lambda>1"
			}
			for _, v := range cp.p0 {
				if v == 0 {
					cl += "/zero_start"
					break
				}
			}
			info["optclass"] = cl
		} else {
			rt := rs.rt
			st := &c.Starts[rs.si]
			pr := &problem{c: c, si: rs.si, x0: st.X, xstar: ratsF(c.Xstar)}
			if c.Kind == "polyroot" {
				pr.F = c.system()
			} else {
				pr.f = c.objective()
			}
			pr.cons = st.constraint(rs.o.Cons)
			if c.Kind == "line1d" && rs.o.Cons != "none" {
				// the feasible interval [0, c] of the case
				cmax := c.Cbox.f()
				if rs.o.Cons == "half" {
					cmax = c.Chalf.f()
				}
				pr.cons = func(a []float64) bool { return a[0] <= cmax }
			}
			epsExp := rs.o.EpsExp
			if c.Kind == "quadhard" {
				epsExp += 6 // the option class "unreachable epsilon": 1e-12 and (capped) 1e-14
				if epsExp > 14 {
					epsExp = 14
				}
			}
			pr.eps = math.Pow(10, -float64(epsExp)/float64(rt.epsDiv))
			maxit := rt.bigCap
			// larger caps where the run stays short anyway (the caps only bound the trace volume)
			if strings.HasPrefix(rt.name, "newton") && rs.o.Cons != "half" {
				maxit = 100
			}
			if rt.name == "bfgs" && c.Kind != "rosen" {
				maxit = 150
			}
			if rt.name == "bfgs" && c.Kind == "quadhard" {
				// a stalled BFGS spends hundreds of evaluations in failing line searches: the cap must stay out of
				// reach of the evaluation counter, so that a nil return has to be justified by the stopping condition
				maxit = 5000
			}
			if rs.o.Maxit >= 0 {
				maxit = rt.smallCap
			} else if maxit == 0 {
				maxit = -1
			}
			begin.Algo, begin.Maxit, begin.HookKind, begin.IterBy, begin.Fixed = rt.name, maxit, rt.hookKind, rt.iterBy, rt.fixed
			begin.HasCons = pr.cons != nil
			begin.Sc = c.Sc && rt.name != "lineSearch" // the 1-d restriction has its own minimiser
			res = rt.run(pr, rs.variant, rs.o, maxit, rng, r)
			info["eps"] = pr.eps
			info["maxit"] = maxit
			info["hookstop"] = rs.o.HookStop
			// the caller's view of the returned point
			if res.pt != nil && len(res.pt) == len(pr.xstar) && rt.name != "lineSearch" {
				d := dist(res.pt, pr.xstar)
				info["dist"] = d
				if res.nearOK == nil && c.Sc {
					ok := d <= 10*pr.eps*math.Sqrt(c.Invb2.f())+1e-12
					res.nearOK = &ok
				}
			}
		}
		wd.end()

		ret := ev{E: "ret", B: res.err, StopOK: res.stopOK, StartOK: res.startOK}
		if res.pt != nil {
			ret.P = ident(r.pt, res.pt)
		}
		if res.nearOK != nil {
			ret.NearMin = *res.nearOK
		}
		if rs.rt != nil && begin.HasCons && res.pt != nil {
			if res.consOK != nil {
				ret.ConsOK = *res.consOK // (line search: the constraint of the one-dimensional restriction)
			} else {
				ret.ConsOK = cases[rs.ci].Starts[rs.si].constraint(rs.o.Cons)(res.pt)
			}
		}
		outcome := "stop"
		switch {
		case strings.Contains(res.msg, eventCapMsg) && r.stuck():
			outcome = "timeout" // the routine repeats the same callbacks for ever
		case strings.Contains(res.msg, eventCapMsg):
			outcome = "abandoned" // still visiting new points after 12000 callbacks: slow, no verdict (non-termination is C20)
		case res.err:
			outcome = "error"
		case r.stopped:
			outcome = "hook"
		case !res.stopOK && begin.Maxit >= 0:
			outcome = "cap"
		case !res.stopOK:
			outcome = "unjustified"
		}
		info["outcome"] = outcome
		info["msg"] = res.msg
		info["stopok"] = res.stopOK
		info["nevals"], info["nhooks"], info["ncons"] = r.nEval, r.nHook, r.nCons
		info["tail"] = r.tail
		if r.xtype != "" {
			info["xtype"] = r.xtype
		}
		if res.pt != nil {
			info["returned"] = res.pt
		}
		for k, v := range res.info {
			info[k] = v
		}
		counts[rs.routineName()+"/"+outcome]++
		if outcome == "timeout" {
			writeRun([]ev{begin, {E: "timeout"}})
		} else if outcome == "abandoned" {
			writeRun(nil)
		} else {
			writeRun(append(append([]ev{begin}, r.evs...), ret))
		}
	}
	vh.Summary(out, vh.M{"runs": len(selected) - startAt, "selected": len(selected), "universe": len(all), "events": nEvents,
		"per_routine_universe": perRoutine, "outcomes": counts, "cases": len(cases), "combos": len(combos)})
	trace.Close()
	out.Close()
}

func sortCombos(cs []combo) {
	less := func(a, b combo) bool {
		if a.EpsExp != b.EpsExp {
			return a.EpsExp < b.EpsExp
		}
		if a.Maxit != b.Maxit {
			return a.Maxit < b.Maxit
		}
		if a.HookStop != b.HookStop {
			return a.HookStop < b.HookStop
		}
		return a.Cons < b.Cons
	}
	for i := 1; i < len(cs); i++ {
		for j := i; j > 0 && less(cs[j], cs[j-1]); j-- {
			cs[j], cs[j-1] = cs[j-1], cs[j]
		}
	}
}

// sanitize makes non-finite floats printable (JSON has no NaN / Inf).
func sanitize(v interface{}) interface{} {
	switch x := v.(type) {
	case float64:
		if math.IsNaN(x) || math.IsInf(x, 0) {
			return fmt.Sprint(x)
		}
		return x
	case []float64:
		o := make([]interface{}, len(x))
		for i := range x {
			o[i] = sanitize(x[i])
		}
		return o
	case map[string]interface{}:
		o := vh.M{}
		for k, e := range x {
			o[k] = sanitize(e)
		}
		return o
	}
	return v
}
