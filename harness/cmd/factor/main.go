// Conformance driver for C05 (matrix factorizations reproduce their input with
// the promised structure).
//
//	factor run <cases.ndjson> <trace.ndjson> <results.ndjson> [shards]
//	    cases and the contract table printed by spec/Factorization.tla.  Every real
//	    routine listed for a case is called for every option combination of its
//	    contract, for DenseFloat64Matrix and DenseReal64Matrix inputs, with fresh
//	    and with re-used in-situ buffers.  One event per call is logged (returned
//	    factors as fixed-point integers, scale 2^10, plus the fine float64
//	    projection booleans); spec/FactorizationTrace.tla decides every event.
//	    The calls run in CHILD processes: the child announces every call on its
//	    stdout before executing it (journal); the parent kills a child whose
//	    journalled call exceeds the watchdog, logs outcome "timeout" for exactly
//	    that call and restarts a child after it (the QR iteration is known to spin
//	    on some inputs - property C20).
//	factor child <cases> <tracepart> <shard> <nshards> <startK> <skipfile>
package main

import (
	"bufio"
	"encoding/json"
	"fmt"
	"io"
	"os"
	"os/exec"
	"sort"
	"strconv"
	"strings"
	"sync"
	"time"

	"verifharness/vh"
)

type rat struct {
	N int `json:"n"`
	D int `json:"d"`
}

func (r rat) f() float64 { return float64(r.N) / float64(r.D) }

type gen struct {
	Cls string `json:"cls"`
	M   int    `json:"m"`
	N   int    `json:"n"`
	P   []int  `json:"p"`
	Q   []int  `json:"q"`
	R   []int  `json:"r"`
	K   int    `json:"k"`
}

type fcase struct {
	Kind     string   `json:"kind"`
	Gen      gen      `json:"gen"`
	Num      [][]int  `json:"num"`
	Den      int      `json:"den"`
	Sym      bool     `json:"sym"`
	Spd      bool     `json:"spd"`
	FullRank bool     `json:"fullrank"`
	Loose    bool     `json:"loose"`
	EigK     bool     `json:"eigk"`
	Eig      []rat    `json:"eig"`
	Cre      []rat    `json:"cre"`
	SvK      bool     `json:"svk"`
	Sv       []rat    `json:"sv"`
	CholK    bool     `json:"cholk"`
	Chol     [][]rat  `json:"chol"`
	LdlL     [][]rat  `json:"ldll"`
	LdlD     []rat    `json:"ldld"`
	SuffPD   bool     `json:"suffpd"`
	RootK    bool     `json:"rootk"`
	SqrtM    [][]rat  `json:"sqrtm"`
	InvSqrtM [][]rat  `json:"invsqrtm"`
	CondK    bool     `json:"condk"`
	Cond     struct {
		A    rat  `json:"a"`
		B    rat  `json:"b"`
		Sqrt bool `json:"sqrt"`
		E2   int  `json:"e2"`
	} `json:"cond"`
	OrthK int `json:"orthk"`
	Routines []string `json:"routines"`
}

type contract struct {
	Routine string   `json:"routine"`
	Input   string   `json:"input"`
	F1      string   `json:"f1"`
	F2      string   `json:"f2"`
	F3      string   `json:"f3"`
	Eq      string   `json:"eq"`
	Opts    []string `json:"opts"`
}

type table struct {
	Kind       string     `json:"kind"`
	Contracts  []contract `json:"contracts"`
	SortedVals []string   `json:"sortedvals"`
	Cu         []bool     `json:"cu"`
	Cv         []bool     `json:"cv"`
	Vec        []bool     `json:"vec"`
	Setzero    []bool     `json:"setzero"`
	Eps        []int      `json:"eps"`
	Buf        []string   `json:"buf"`
}

// one call of a real routine
type call struct {
	K       int
	Case    int
	Routine string
	Typ     string // f64 | r64
	Buf     string // fresh | reuse
	Cu, Cv  bool
	Vec     bool
	Setzero bool
	Eps     int
}

type event struct {
	E        string          `json:"e"`
	K        int             `json:"k"`
	Case     int             `json:"case"`
	Gen      gen             `json:"gen"`
	Routine  string          `json:"routine"`
	Typ      string          `json:"typ"`
	Buf      string          `json:"buf"`
	Cu       bool            `json:"cu"`
	Cv       bool            `json:"cv"`
	Vec      bool            `json:"vec"`
	Setzero  bool            `json:"setzero"`
	Eps      int             `json:"eps"`
	Outcome  string          `json:"outcome"` // ok | err | panic | timeout | fatal
	Msg      string          `json:"msg"`
	FxOk     bool            `json:"fxok"`
	VFxOk    bool            `json:"vfxok"`
	Afx      [][]int         `json:"afx"`
	Has1     bool            `json:"has1"`
	Has2     bool            `json:"has2"`
	Has3     bool            `json:"has3"`
	F1       [][]int         `json:"f1"`
	F2       [][]int         `json:"f2"`
	F3       [][]int         `json:"f3"`
	Vals     []int           `json:"vals"`
	Pat1     map[string]bool `json:"pat1"`
	Pat2     map[string]bool `json:"pat2"`
	Pat3     map[string]bool `json:"pat3"`
	ReconA   bool            `json:"recona"`
	Recon    bool            `json:"recon"`
	EigPair  []bool          `json:"eigpair"`
	Sorted   bool            `json:"sorted"`
	ValsExA  bool            `json:"valsexa"`
	ValsEx   bool            `json:"valsex"`
	FacExA   bool            `json:"facexa"`
	FacEx    bool            `json:"facex"`
	AgreeA   bool            `json:"agreea"`
	Agree    bool            `json:"agree"`
	MiddleA  bool            `json:"middlea"`
	Middle   bool            `json:"middle"`
	InvarA   bool            `json:"invara"`
	Invar    bool            `json:"invar"`
	InputMod bool            `json:"inputmod"`
	Resid    string          `json:"resid"`
	CondTol  bool            `json:"condtol"` // orthogonality judged with the condition-number tolerance of the case
	Orth     string          `json:"orth"`    // info: ||F1'F1 - I||_F and the tolerance used
}

var (
	tbl   table
	cases []fcase
	ctr   = map[string]contract{}
)

func load(path string) {
	err := vh.EachLine(path, func(line []byte) error {
		var probe struct {
			Kind string `json:"kind"`
		}
		if e := json.Unmarshal(line, &probe); e != nil {
			return e
		}
		if probe.Kind == "contracts" {
			return json.Unmarshal(line, &tbl)
		}
		var c fcase
		if e := json.Unmarshal(line, &c); e != nil {
			return e
		}
		cases = append(cases, c)
		return nil
	})
	if err != nil {
		vh.Fatal("cannot read cases:", err)
	}
	if tbl.Kind != "contracts" || len(cases) == 0 {
		vh.Fatal("cases file holds no contract table or no case")
	}
	for _, c := range tbl.Contracts {
		ctr[c.Routine] = c
	}
}

func has(opts []string, o string) bool {
	for _, x := range opts {
		if x == o {
			return true
		}
	}
	return false
}

// every option combination of a routine's contract; the combination that
// computes every factor comes first (its middle factor is the reference of the
// partial combinations)
func combos(c contract) []call {
	bl := func(on bool, dom []bool) []bool {
		if !on {
			return []bool{false}
		}
		out := append([]bool{}, dom...)
		sort.SliceStable(out, func(i, j int) bool { return out[i] && !out[j] })
		return out
	}
	eps := []int{0}
	if has(c.Opts, "eps") {
		eps = tbl.Eps
	}
	buf := []string{"fresh"}
	if has(c.Opts, "buf") {
		buf = tbl.Buf
	}
	sz := []bool{true}
	if has(c.Opts, "setzero") {
		sz = tbl.Setzero
	}
	var out []call
	for _, e := range eps {
		for _, b := range buf {
			for _, z := range sz {
				for _, cu := range bl(has(c.Opts, "cu"), tbl.Cu) {
					for _, cv := range bl(has(c.Opts, "cv"), tbl.Cv) {
						for _, vec := range bl(has(c.Opts, "vec"), tbl.Vec) {
							out = append(out, call{Routine: c.Routine, Buf: b, Cu: cu, Cv: cv, Vec: vec, Setzero: z, Eps: e})
						}
					}
				}
			}
		}
	}
	return out
}

// the deterministic work list
func eachCall(f func(c call)) {
	k := 0
	for ci, cs := range cases {
		rts := append([]string{}, cs.Routines...)
		sort.Strings(rts)
		for _, rt := range rts {
			c, ok := ctr[rt]
			if !ok {
				vh.Fatal("case names unknown routine", rt)
			}
			for _, cb := range combos(c) {
				for _, typ := range []string{"f64", "r64"} {
					k++
					cb.K, cb.Case, cb.Typ = k, ci, typ
					f(cb)
				}
			}
		}
	}
}

func nz(s []int) []int {
	if s == nil {
		return []int{}
	}
	return s
}

func baseEvent(c call) *event {
	g := cases[c.Case].Gen
	g.P, g.Q, g.R = nz(g.P), nz(g.Q), nz(g.R)
	return &event{E: "call", K: c.K, Case: c.Case, Gen: g, Routine: c.Routine, Typ: c.Typ, Buf: c.Buf,
		Cu: c.Cu, Cv: c.Cv, Vec: c.Vec, Setzero: c.Setzero, Eps: c.Eps, Outcome: "ok",
		Afx: [][]int{}, F1: [][]int{}, F2: [][]int{}, F3: [][]int{}, Vals: []int{},
		Pat1: map[string]bool{}, Pat2: map[string]bool{}, Pat3: map[string]bool{}, EigPair: []bool{},
		Recon: true, Sorted: true, ValsEx: true, FacEx: true, Agree: true, Middle: true, Invar: true}
}

// routines that run the same iteration on the same matrix: when one of them does not return, the
// others are not started for that case (skipped, counted)
func family(rt string) string {
	switch rt {
	case "qr", "eigen", "eigen_sym":
		return "qr" // the unsymmetric QR algorithm
	}
	return rt
}

func iterative(rt string) bool {
	switch rt {
	case "qr", "qr_sym", "eigen", "eigen_sym", "svd", "msqrt", "msqrtinv":
		return true
	}
	return false
}

func skipKey(c call) string { return fmt.Sprintf("%d:%s", c.Case, family(c.Routine)) }

/* ------------------------------------------------------------------ child */

func appendLine(path string, v interface{}) {
	b, err := json.Marshal(v)
	if err != nil {
		vh.Fatal("marshal:", err)
	}
	f, err := os.OpenFile(path, os.O_APPEND|os.O_CREATE|os.O_WRONLY, 0644)
	if err != nil {
		vh.Fatal("open:", err)
	}
	f.Write(append(b, '\n'))
	f.Close()
}

func child(args []string) {
	if len(args) != 6 {
		vh.Fatal("usage: factor child cases tracepart shard nshards startK skipfile")
	}
	load(args[0])
	shard, _ := strconv.Atoi(args[2])
	nshards, _ := strconv.Atoi(args[3])
	startK, _ := strconv.Atoi(args[4])
	skip := map[string]bool{}
	if b, err := os.ReadFile(args[5]); err == nil {
		for _, s := range strings.Fields(string(b)) {
			skip[s] = true
		}
	}
	tf, err := os.OpenFile(args[1], os.O_APPEND|os.O_CREATE|os.O_WRONLY, 0644)
	if err != nil {
		vh.Fatal("open:", err)
	}
	tw := bufio.NewWriterSize(tf, 1<<16)
	jr := bufio.NewWriter(os.Stdout)
	st := newState()
	eachCall(func(c call) {
		if c.Case%nshards != shard || c.K < startK || skip[skipKey(c)] {
			return
		}
		fmt.Fprintf(jr, "B %d\n", c.K)
		jr.Flush()
		ev := st.execute(c)
		b, _ := json.Marshal(ev)
		tw.Write(append(b, '\n'))
		tw.Flush()
		fmt.Fprintf(jr, "E %d\n", c.K)
		jr.Flush()
	})
	tf.Close()
}

/* ------------------------------------------------------------------ parent */

type shardStat struct {
	calls, timeouts, fatals, skipped, retried int
}

func supervise(self, casesPath, part, skipfile string, shard, nshards int, limit time.Duration, byK map[int]call, total int) shardStat {
	var st shardStat
	startK := 1
	confirmK := 0 // call that exceeded the watchdog once and is being re-run with a longer limit
	skips := []string{}
	for restarts := 0; ; restarts++ {
		if restarts > 400 {
			vh.Fatal("too many child deaths in shard", shard)
		}
		os.WriteFile(skipfile, []byte(strings.Join(skips, "\n")), 0644)
		cmd := exec.Command(self, "child", casesPath, part, strconv.Itoa(shard), strconv.Itoa(nshards), strconv.Itoa(startK), skipfile)
		var stderr strings.Builder
		cmd.Stderr = &stderr
		pipe, err := cmd.StdoutPipe()
		if err != nil {
			vh.Fatal(err)
		}
		if err := cmd.Start(); err != nil {
			vh.Fatal("cannot start child:", err)
		}
		var mu sync.Mutex
		cur, busy, since := 0, false, time.Now()
		done := make(chan struct{})
		go func() {
			r := bufio.NewReader(pipe)
			for {
				line, err := r.ReadString('\n')
				if len(line) > 2 {
					k, _ := strconv.Atoi(strings.TrimSpace(line[2:]))
					mu.Lock()
					if line[0] == 'B' {
						cur, busy, since = k, true, time.Now()
					} else {
						busy = false
						st.calls++
					}
					mu.Unlock()
				}
				if err != nil {
					break
				}
			}
			io.Copy(io.Discard, pipe)
			close(done)
		}()
		killed := false
		tick := time.NewTicker(20 * time.Millisecond)
	loop:
		for {
			select {
			case <-done:
				break loop
			case <-tick.C:
				mu.Lock()
				lim := limit
				if busy && cur == confirmK {
					// second attempt: rules out a stall of the (shared) machine
					if iterative(byK[cur].Routine) {
						lim = 4 * limit
					} else {
						lim = 40 * limit
					}
				}
				if busy && time.Since(since) > lim && !killed {
					killed = true
					cmd.Process.Kill()
				}
				mu.Unlock()
			}
		}
		tick.Stop()
		werr := cmd.Wait()
		mu.Lock()
		k, b := cur, busy
		mu.Unlock()
		if !killed && werr == nil && !b {
			return st // finished
		}
		if !b {
			fmt.Fprintf(os.Stderr, "child of shard %d died outside a journalled call (%v): %s\n", shard, werr, tail(stderr.String(), 2000))
			os.Exit(3)
		}
		c := byK[k]
		if killed && confirmK != k {
			confirmK, startK = k, k
			st.retried++
			continue
		}
		ev := baseEvent(c)
		if killed {
			ev.Outcome = "timeout"
			ev.Msg = fmt.Sprintf("no return within %v", limit)
			st.timeouts++
			// the remaining option combinations run the same iteration: skipped, counted
			skips = append(skips, skipKey(c))
		} else {
			ev.Outcome = "fatal"
			ev.Msg = tail(stderr.String(), 300)
			st.fatals++
		}
		st.calls++
		appendLine(part, ev)
		startK = k + 1
	}
}

func tail(s string, n int) string {
	if len(s) > n {
		return s[len(s)-n:]
	}
	return s
}

func run(args []string) {
	if len(args) < 3 {
		vh.Fatal("usage: factor run cases trace results [shards]")
	}
	load(args[0])
	nshards := 4
	if len(args) > 3 {
		nshards, _ = strconv.Atoi(args[3])
	}
	limit := time.Duration(vh.EnvInt("FACTOR_LIMIT_MS", 1000)) * time.Millisecond
	self, err := os.Executable()
	if err != nil {
		vh.Fatal(err)
	}
	byK := map[int]call{}
	total := 0
	perRoutine := map[string]int{}
	eachCall(func(c call) { byK[c.K] = c; total++; perRoutine[c.Routine]++ })
	stats := make([]shardStat, nshards)
	var wg sync.WaitGroup
	for s := 0; s < nshards; s++ {
		wg.Add(1)
		go func(s int) {
			defer wg.Done()
			part := fmt.Sprintf("%s.part%d", args[1], s)
			os.Remove(part)
			stats[s] = supervise(self, args[0], part, fmt.Sprintf("%s.skip%d", args[1], s), s, nshards, limit, byK, total)
		}(s)
	}
	wg.Wait()
	// concatenate the parts
	out, err := os.Create(args[1])
	if err != nil {
		vh.Fatal(err)
	}
	nev := 0
	var sum shardStat
	for s := 0; s < nshards; s++ {
		part := fmt.Sprintf("%s.part%d", args[1], s)
		if f, err := os.Open(part); err == nil {
			r := bufio.NewReaderSize(f, 1<<20)
			for {
				line, err := r.ReadBytes('\n')
				if len(line) > 1 {
					out.Write(line)
					nev++
				}
				if err != nil {
					break
				}
			}
			f.Close()
			os.Remove(part)
		}
		os.Remove(fmt.Sprintf("%s.skip%d", args[1], s))
		sum.calls += stats[s].calls
		sum.timeouts += stats[s].timeouts
		sum.fatals += stats[s].fatals
		sum.retried += stats[s].retried
	}
	out.Close()
	// calls that were never started because the same iteration did not return before
	seenK := map[int]bool{}
	vh.EachLine(args[1], func(line []byte) error {
		var e struct {
			K int `json:"k"`
		}
		if json.Unmarshal(line, &e) == nil {
			seenK[e.K] = true
		}
		return nil
	})
	skippedPer := map[string]int{}
	for k, c := range byK {
		if !seenK[k] {
			skippedPer[c.Routine]++
		}
	}
	res := vh.NewOut(args[2])
	vh.Summary(res, vh.M{"cases": len(cases), "calls_planned": total, "events": nev, "timeouts": sum.timeouts,
		"fatals": sum.fatals, "watchdog_retries": sum.retried, "skipped_after_timeout": total - nev, "per_routine": perRoutine, "skipped_per_routine": skippedPer, "limit_ms": int(limit / time.Millisecond)})
	res.Close()
}

func main() {
	if len(os.Args) < 2 {
		vh.Fatal("usage: factor run|child ...")
	}
	switch os.Args[1] {
	case "run":
		run(os.Args[2:])
	case "child":
		child(os.Args[2:])
	default:
		vh.Fatal("unknown sub-command", os.Args[1])
	}
}
