package main

// Projection of the returned factors to the observations of
// spec/FactorizationTrace.tla: fixed-point integers (scale 2^10) for the coarse
// re-computation by TLC and the fine float64 booleans (residuals are evaluated
// here, with plain loops; no library norm or product is used).

import (
	"fmt"
	"math"
	"sort"
)

const fxScale = 1024.0
const fxLimit = 32.0 // |entries| above this are not logged in fixed point (TLC integers are 32 bit)

var patNames = []string{"lower", "unitlower", "diag", "posdiag", "nonnegdiag", "upper", "upperbidiag", "tridiag",
	"hessenberg", "quasiupper", "orth", "orthcols", "any", "free", "none"}

func noPat() map[string]bool {
	p := map[string]bool{}
	for _, n := range patNames {
		p[n] = false
	}
	p["none"] = true
	return p
}

func matOf(cs *fcase) fm {
	a := make(fm, len(cs.Num))
	for i := range a {
		a[i] = make([]float64, len(cs.Num[i]))
		for j := range a[i] {
			a[i][j] = float64(cs.Num[i][j]) / float64(cs.Den)
		}
	}
	return a
}

func frob(a fm) float64 {
	s := 0.0
	for i := range a {
		for _, x := range a[i] {
			s += x * x
		}
	}
	return math.Sqrt(s)
}

func finite(a fm) bool {
	for i := range a {
		for _, x := range a[i] {
			if math.IsNaN(x) || math.IsInf(x, 0) {
				return false
			}
		}
	}
	return true
}

func finiteV(v []float64) bool {
	for _, x := range v {
		if math.IsNaN(x) || math.IsInf(x, 0) {
			return false
		}
	}
	return true
}

func dims(a fm) (int, int) {
	if len(a) == 0 {
		return 0, 0
	}
	return len(a), len(a[0])
}

func mul(a, b fm) fm {
	m, k := dims(a)
	k2, n := dims(b)
	if k != k2 {
		return nil
	}
	c := make(fm, m)
	for i := 0; i < m; i++ {
		c[i] = make([]float64, n)
		for j := 0; j < n; j++ {
			s := 0.0
			for t := 0; t < k; t++ {
				s += a[i][t] * b[t][j]
			}
			c[i][j] = s
		}
	}
	return c
}

func tr(a fm) fm {
	m, n := dims(a)
	c := make(fm, n)
	for j := 0; j < n; j++ {
		c[j] = make([]float64, m)
		for i := 0; i < m; i++ {
			c[j][i] = a[i][j]
		}
	}
	return c
}

func ident(n int) fm {
	c := make(fm, n)
	for i := range c {
		c[i] = make([]float64, n)
		c[i][i] = 1
	}
	return c
}

// Frobenius distance; +Inf when shapes differ or a product was undefined
func dist(a, b fm) float64 {
	if a == nil || b == nil {
		return math.Inf(1)
	}
	m, n := dims(a)
	m2, n2 := dims(b)
	if m != m2 || n != n2 {
		return math.Inf(1)
	}
	s := 0.0
	for i := 0; i < m; i++ {
		for j := 0; j < n; j++ {
			d := a[i][j] - b[i][j]
			s += d * d
		}
	}
	r := math.Sqrt(s)
	if math.IsNaN(r) {
		return math.Inf(1)
	}
	return r
}

func sameF(a, b fm, rel float64) bool {
	if (a == nil) != (b == nil) {
		return false
	}
	m, n := dims(a)
	m2, n2 := dims(b)
	if m != m2 || n != n2 {
		return false
	}
	for i := 0; i < m; i++ {
		if !sameV(a[i], b[i], rel) {
			return false
		}
	}
	return true
}

func sameV(a, b []float64, rel float64) bool {
	if (a == nil) != (b == nil) || len(a) != len(b) {
		return false
	}
	for i := range a {
		x, y := a[i], b[i]
		if math.IsNaN(x) && math.IsNaN(y) {
			continue
		}
		if x == y {
			continue
		}
		if !(math.Abs(x-y) <= rel*(1+math.Abs(x))) {
			return false
		}
	}
	return true
}

// entries equal up to sign (reductions are unique up to the signs of the reflectors)
func sameAbsF(a, b fm, tol float64) bool {
	if a == nil || b == nil {
		return false
	}
	m, n := dims(a)
	m2, n2 := dims(b)
	if m != m2 || n != n2 {
		return false
	}
	for i := 0; i < m; i++ {
		for j := 0; j < n; j++ {
			if !(math.Abs(math.Abs(a[i][j])-math.Abs(b[i][j])) <= tol) {
				return false
			}
		}
	}
	return true
}

func patterns(f fm, ztol, otol float64) map[string]bool {
	p := noPat()
	if f == nil {
		return p
	}
	p["none"] = false
	p["free"] = true
	fin := finite(f)
	p["any"] = fin
	if !fin {
		return p
	}
	m, n := dims(f)
	z := func(x float64) bool { return math.Abs(x) <= ztol }
	lower, upper, diag, bidiag, tridiag, hess := true, true, true, true, true, true
	for i := 0; i < m; i++ {
		for j := 0; j < n; j++ {
			if z(f[i][j]) {
				continue
			}
			if j > i {
				lower = false
			}
			if i > j {
				upper = false
			}
			if i != j {
				diag = false
			}
			if !(j == i || j == i+1) {
				bidiag = false
			}
			if j > i+1 || i > j+1 {
				tridiag = false
			}
			if i > j+1 {
				hess = false
			}
		}
	}
	k := m
	if n < k {
		k = n
	}
	unit, pos, nonneg := true, true, true
	for i := 0; i < k; i++ {
		if math.Abs(f[i][i]-1) > 1e-12 {
			unit = false
		}
		if !(f[i][i] > 0) {
			pos = false
		}
		if !(f[i][i] >= -ztol) {
			nonneg = false
		}
	}
	p["lower"], p["upper"], p["diag"] = lower, upper, diag
	p["unitlower"] = lower && unit
	p["posdiag"] = diag && pos
	p["nonnegdiag"] = diag && nonneg
	p["upperbidiag"], p["tridiag"], p["hessenberg"] = bidiag, tridiag, hess
	// real quasi-upper-triangular: 2x2 diagonal blocks only, each with a complex-conjugate pair
	quasi := hess && m == n
	if quasi {
		for i := 0; i+1 < m; i++ {
			if z(f[i+1][i]) {
				continue
			}
			if i+2 < m && !z(f[i+2][i+1]) {
				quasi = false
			}
			d := f[i][i] - f[i+1][i+1]
			if !(d*d+4*f[i][i+1]*f[i+1][i] < 0) {
				quasi = false
			}
		}
	}
	p["quasiupper"] = quasi
	g := mul(tr(f), f)
	oc := dist(g, ident(n)) <= otol
	p["orthcols"] = oc
	p["orth"] = oc && m == n
	return p
}

func toFx(a fm) ([][]int, bool) {
	out := make([][]int, len(a))
	ok := true
	for i := range a {
		out[i] = make([]int, len(a[i]))
		for j, x := range a[i] {
			if math.IsNaN(x) || math.Abs(x) > fxLimit {
				ok = false
				continue
			}
			out[i][j] = int(math.Round(x * fxScale))
		}
	}
	return out, ok
}

func sortedCopy(v []float64) []float64 {
	c := append([]float64{}, v...)
	sort.Float64s(c)
	return c
}

func ratsF(r []rat) []float64 {
	out := make([]float64, len(r))
	for i := range r {
		out[i] = r[i].f()
	}
	return out
}

func project(ev *event, c call, cs *fcase, ct contract, a fm, res result) {
	m, n := dims(a)
	na := frob(a)
	size := float64(m)
	ztol := 1e-9 * (na + 1)
	otol := 1e-8 * size
	if cs.CondK {
		// the symbolic tolerance of the specification: OrthK * 2^-53 * cond * m, cond = (a * b or sqrt(a * b)) * 2^e2
		cond := cs.Cond.A.f() * cs.Cond.B.f()
		if cs.Cond.Sqrt {
			cond = math.Sqrt(cond)
		}
		cond = math.Ldexp(cond, cs.Cond.E2)
		if t := float64(cs.OrthK) * math.Ldexp(1, -53) * cond * size; t < otol {
			otol = t
		}
		ev.CondTol = true
	}
	rtol := 1e-8 * (1 + na) * size
	afx, ok := toFx(a)
	ev.Afx, ev.FxOk = afx, ok
	if res.outcome != "ok" {
		return
	}
	f := res.f
	for i := 0; i < 3; i++ {
		if f[i] != nil {
			fx, ok := toFx(f[i])
			if !ok {
				ev.FxOk = false
			}
			switch i {
			case 0:
				ev.F1, ev.Has1, ev.Pat1 = fx, true, patterns(f[i], ztol, otol)
				if _, nc := dims(f[i]); finite(f[i]) {
					ev.Orth = fmt.Sprintf("%.3g/%.3g", dist(mul(tr(f[i]), f[i]), ident(nc)), otol)
				}
			case 1:
				ev.F2, ev.Has2, ev.Pat2 = fx, true, patterns(f[i], ztol, otol)
			case 2:
				ev.F3, ev.Has3, ev.Pat3 = fx, true, patterns(f[i], ztol, otol)
			}
		}
	}
	if res.vals != nil {
		ev.Vals = make([]int, len(res.vals))
		ev.VFxOk = true
		for i, x := range res.vals {
			if math.IsNaN(x) || math.Abs(x) > fxLimit*64 {
				ev.FxOk, ev.VFxOk = false, false
				continue
			}
			ev.Vals[i] = int(math.Round(x * fxScale))
		}
	}
	// defining equation
	resid := math.NaN()
	switch ct.Eq {
	case "F1F1t":
		if f[0] != nil {
			ev.ReconA, resid = true, dist(mul(f[0], tr(f[0])), a)
		}
	case "F1F2F1t":
		if f[0] != nil && f[1] != nil {
			ev.ReconA, resid = true, dist(mul(mul(f[0], f[1]), tr(f[0])), a)
		}
	case "F1F2":
		if f[0] != nil && f[1] != nil {
			ev.ReconA, resid = true, dist(mul(f[0], f[1]), a)
		}
	case "F1F2F3t":
		if f[0] != nil && f[1] != nil && f[2] != nil {
			ev.ReconA, resid = true, dist(mul(mul(f[0], f[1]), tr(f[2])), a)
		}
	case "F1F1":
		if f[0] != nil {
			ev.ReconA, resid = true, dist(mul(f[0], f[0]), a)
			rtol = 1e-6 * (1 + na) * size // iterative, stops on a step of 1e-8 (squared norm)
		}
	case "F1AF1":
		if f[0] != nil {
			ev.ReconA, resid = true, dist(mul(mul(f[0], a), f[0]), ident(n))
			rtol = 1e-6 * (1 + na) * size
		}
	case "eig":
		if f[0] != nil && res.vals != nil && len(res.vals) == n {
			ev.ReconA = true
			ev.EigPair = make([]bool, n)
			worst := 0.0
			for j := 0; j < n; j++ {
				nv, nr := 0.0, 0.0
				for i := 0; i < n; i++ {
					s := 0.0
					for t := 0; t < n; t++ {
						s += a[i][t] * f[0][t][j]
					}
					d := s - res.vals[j]*f[0][i][j]
					nr += d * d
					nv += f[0][i][j] * f[0][i][j]
				}
				nv, nr = math.Sqrt(nv), math.Sqrt(nr)
				ev.EigPair[j] = nv > 1e-6 && !math.IsInf(nv, 0) && nr <= rtol*nv
				if r := nr / nv; r > worst || math.IsNaN(r) {
					worst = r
				}
			}
			resid = worst
		}
	}
	if ev.ReconA && ct.Eq != "eig" {
		ev.Recon = resid <= rtol
	}
	ev.Resid = fmt.Sprintf("%.3g", resid)
	// invariants that survive when an outer factor is not requested: Frobenius norm (two-sided
	// orthogonal equivalence) resp. trace (similarity)
	if f[1] != nil && finite(f[1]) {
		switch c.Routine {
		case "bidiag", "svd":
			ev.InvarA, ev.Invar = true, math.Abs(frob(f[1])-na) <= rtol
		case "tridiag", "hessenberg", "qr", "qr_sym":
			ta, tf := 0.0, 0.0
			for i := 0; i < n; i++ {
				ta += a[i][i]
				tf += f[1][i][i]
			}
			ev.InvarA, ev.Invar = true, math.Abs(ta-tf) <= rtol
		}
	}
	// values: ordering and the exact spectrum the construction yields
	if res.vals != nil {
		fin := finiteV(res.vals)
		for i := 0; i+1 < len(res.vals); i++ {
			if !(math.Abs(res.vals[i]) >= math.Abs(res.vals[i+1])-ztol) {
				ev.Sorted = false
			}
		}
		if !fin {
			ev.Sorted = false
		}
		var exact []float64
		switch {
		case ct.Eq == "eig" && cs.EigK:
			exact = append(ratsF(cs.Eig), ratsF(cs.Cre)...)
		case c.Routine == "svd" && cs.SvK:
			exact = ratsF(cs.Sv)
		}
		if exact != nil {
			ev.ValsExA = true
			tol := 1e-8 * (1 + na) * size
			if cs.Loose {
				tol = 1e-3 * (1 + na)
			}
			got, want := sortedCopy(res.vals), sortedCopy(exact)
			if c.Routine == "svd" {
				for i := range got {
					got[i] = math.Abs(got[i])
				}
				sort.Float64s(got)
			}
			ev.ValsEx = fin && len(got) == len(want)
			for i := 0; ev.ValsEx && i < len(got); i++ {
				if !(math.Abs(got[i]-want[i]) <= tol) {
					ev.ValsEx = false
				}
			}
		}
	}
	// exact principal (inverse) square root of the prescribed-condition family; the bound is scaled with the
	// condition number of the case: 1e-8 * sqrt(cond) relative to the norm of the exact root
	if cs.RootK && (c.Routine == "msqrt" || c.Routine == "msqrtinv") && f[0] != nil {
		ev.FacExA = true
		want := cs.SqrtM
		if c.Routine == "msqrtinv" {
			want = cs.InvSqrtM
		}
		w := make(fm, len(want))
		for i := range want {
			w[i] = ratsF(want[i])
		}
		cond := cs.Cond.A.f() * cs.Cond.B.f()
		tol := 1e-8 * math.Sqrt(cond) * (1 + frob(w)) * size
		d := dist(f[0], w)
		ev.FacEx = d <= tol
		ev.Resid += fmt.Sprintf(" root=%.3g/%.3g", d, tol)
	}
	// exact factors of the integer-L family
	if cs.CholK && (c.Routine == "cholesky" || c.Routine == "ldl" || (c.Routine == "ldl_forcepd" && cs.SuffPD)) && f[0] != nil {
		ev.FacExA = true
		tol := 1e-10 * (1 + na)
		okx := true
		cmp := func(x float64, r rat) {
			if !(math.Abs(x-r.f()) <= tol*(1+math.Abs(r.f()))) {
				okx = false
			}
		}
		want := cs.Chol
		if c.Routine != "cholesky" {
			want = cs.LdlL
		}
		if len(f[0]) != n {
			okx = false
		}
		for i := 0; okx && i < n; i++ {
			for j := 0; j < n; j++ {
				cmp(f[0][i][j], want[i][j])
			}
		}
		if c.Routine != "cholesky" {
			if f[1] == nil || len(f[1]) != n {
				okx = false
			}
			for i := 0; okx && i < n; i++ {
				cmp(f[1][i][i], cs.LdlD[i])
			}
		}
		ev.FacEx = okx
	}
}
