package main

// Bindings of the abstract routine names of spec/Factorization.tla to the real
// entry points, one call per (case, routine, option combination, element type).

import (
	"fmt"
	"reflect"

	. "github.com/pbenner/autodiff"
	"github.com/pbenner/autodiff/algorithm/cholesky"
	"github.com/pbenner/autodiff/algorithm/eigensystem"
	"github.com/pbenner/autodiff/algorithm/gramSchmidt"
	"github.com/pbenner/autodiff/algorithm/hessenbergReduction"
	"github.com/pbenner/autodiff/algorithm/householderBidiagonalization"
	"github.com/pbenner/autodiff/algorithm/householderTridiagonalization"
	"github.com/pbenner/autodiff/algorithm/msqrt"
	"github.com/pbenner/autodiff/algorithm/msqrtInv"
	"github.com/pbenner/autodiff/algorithm/qrAlgorithm"
	"github.com/pbenner/autodiff/algorithm/svd"
	"verifharness/vh"
)

type fm = [][]float64

type result struct {
	outcome string // ok | err | panic
	msg     string
	f       [3]fm // nil: factor not returned
	vals    []float64
}

func mkMatrix(typ string, a fm) Matrix {
	m, n := len(a), len(a[0])
	v := make([]float64, 0, m*n)
	for i := 0; i < m; i++ {
		v = append(v, a[i]...)
	}
	if typ == "r64" {
		return NewDenseReal64Matrix(v, m, n)
	}
	return NewDenseFloat64Matrix(v, m, n)
}

func isNil(x interface{}) bool {
	if x == nil {
		return true
	}
	v := reflect.ValueOf(x)
	switch v.Kind() {
	case reflect.Ptr, reflect.Map, reflect.Slice, reflect.Interface, reflect.Func:
		return v.IsNil()
	}
	return false
}

func toF(x ConstMatrix) fm {
	if isNil(x) {
		return nil
	}
	m, n := x.Dims()
	out := make(fm, m)
	for i := 0; i < m; i++ {
		out[i] = make([]float64, n)
		for j := 0; j < n; j++ {
			out[i][j] = x.ConstAt(i, j).GetFloat64()
		}
	}
	return out
}

func toV(x ConstVector) []float64 {
	if isNil(x) {
		return nil
	}
	out := make([]float64, x.Dim())
	for i := range out {
		out[i] = x.ConstAt(i).GetFloat64()
	}
	return out
}

func top(a fm, n int) fm {
	if a == nil || len(a) < n {
		return a
	}
	return a[:n]
}

// a benign matrix of the admissible class, used to dirty the in-situ buffers
func primer(input string, m, n int) fm {
	a := make(fm, m)
	for i := range a {
		a[i] = make([]float64, n)
		for j := range a[i] {
			switch input {
			case "spd":
				if i == j {
					a[i][j] = float64(n + 2 + i)
				} else {
					a[i][j] = 1.0 / float64(1+i+j)
				}
			case "sym":
				a[i][j] = float64((i*j+2*(i+j))%5)/4 - 0.5
				if i == j {
					a[i][j] = 3 + 1.75*float64(i) // distinct diagonal: the unsymmetric QR iteration stalls on equal ones
				}
			default:
				a[i][j] = float64((3*i+5*j+1)%7)/4 - 0.75
				if i == j {
					a[i][j] = 4 + 1.75*float64(i)
				}
			}
		}
	}
	return a
}

func epsOf(c call) float64 { return 1e-12 }

// run executes one call; panics of the library are observations
func runCall(c call, a Matrix, input string) (res result) {
	res.outcome = "ok"
	m, n := a.Dims()
	reuse := c.Buf == "reuse"
	var pm Matrix
	if reuse {
		pm = mkMatrix(c.Typ, primer(input, m, n))
	}
	fail := func(err error) bool {
		if err != nil {
			res.outcome, res.msg = "err", err.Error()
			return true
		}
		return false
	}
	body := func() {
		switch c.Routine {
		case "cholesky", "ldl", "ldl_forcepd":
			opts := []interface{}{}
			if c.Routine != "cholesky" {
				opts = append(opts, cholesky.LDL{Value: true})
			}
			if c.Routine == "ldl_forcepd" {
				opts = append(opts, cholesky.ForcePD{Value: true})
			}
			if reuse {
				is := &cholesky.InSitu{}
				cholesky.Run(pm, append(opts, is)...)
				opts = append(opts, is)
			}
			l, d, err := cholesky.Run(a, opts...)
			if fail(err) {
				return
			}
			res.f[0], res.f[1] = toF(l), toF(d)
		case "gramschmidt":
			opts := []interface{}{}
			if reuse {
				q0, r0, _ := gramSchmidt.Run(pm)
				opts = append(opts, gramSchmidt.InSitu{Q: q0, R: r0})
			}
			q, r, err := gramSchmidt.Run(a, opts...)
			if fail(err) {
				return
			}
			res.f[0], res.f[1] = toF(q), top(toF(r), n)
		case "bidiag":
			opts := []interface{}{householderBidiagonalization.ComputeU{Value: c.Cu}, householderBidiagonalization.ComputeV{Value: c.Cv}}
			if reuse {
				is := &householderBidiagonalization.InSitu{}
				householderBidiagonalization.Run(pm, householderBidiagonalization.ComputeU{Value: true}, householderBidiagonalization.ComputeV{Value: true}, is)
				opts = append(opts, is)
			}
			h, u, v, err := householderBidiagonalization.Run(a, opts...)
			if fail(err) {
				return
			}
			res.f[0], res.f[1], res.f[2] = toF(u), toF(h), toF(v)
		case "tridiag":
			opts := []interface{}{householderTridiagonalization.ComputeU{Value: c.Cu}}
			if reuse {
				is := &householderTridiagonalization.InSitu{}
				householderTridiagonalization.Run(pm, householderTridiagonalization.ComputeU{Value: true}, is)
				opts = append(opts, is)
			}
			t, u, err := householderTridiagonalization.Run(a, opts...)
			if fail(err) {
				return
			}
			res.f[0], res.f[1] = toF(u), toF(t)
		case "hessenberg":
			opts := []interface{}{hessenbergReduction.ComputeU{Value: c.Cu}, hessenbergReduction.SetZero{Value: c.Setzero}}
			if reuse {
				is := &hessenbergReduction.InSitu{}
				hessenbergReduction.Run(pm, hessenbergReduction.ComputeU{Value: true}, is)
				opts = append(opts, is)
			}
			h, u, err := hessenbergReduction.Run(a, opts...)
			if fail(err) {
				return
			}
			res.f[0], res.f[1] = toF(u), toF(h)
		case "qr", "qr_sym":
			opts := []interface{}{qrAlgorithm.ComputeU{Value: c.Cu}}
			if c.Routine == "qr_sym" {
				opts = append(opts, qrAlgorithm.Symmetric{Value: true})
			}
			if c.Eps == 1 {
				opts = append(opts, qrAlgorithm.Epsilon{Value: epsOf(c)})
			}
			if reuse {
				is := &qrAlgorithm.InSitu{}
				qrAlgorithm.Run(pm, append(append([]interface{}{}, opts...), qrAlgorithm.ComputeU{Value: true}, qrAlgorithm.Epsilon{Value: 1e-10}, is)...)
				is.InitializeH = true // documented way to re-use H (cf. algorithm/newton)
				opts = append(opts, is)
			}
			h, u, err := qrAlgorithm.Run(a, opts...)
			if fail(err) {
				return
			}
			res.f[0], res.f[1] = toF(u), toF(h)
		case "eigen", "eigen_sym":
			opts := []interface{}{eigensystem.ComputeEigenvectors{Value: c.Vec}}
			if c.Routine == "eigen_sym" {
				opts = append(opts, eigensystem.Symmetric{Value: true})
			}
			if c.Eps == 1 {
				opts = append(opts, qrAlgorithm.Epsilon{Value: epsOf(c)})
			}
			if reuse {
				is := &eigensystem.InSitu{}
				eigensystem.Run(pm, append(append([]interface{}{}, opts...), eigensystem.ComputeEigenvectors{Value: true}, is)...)
				is.QrAlgorithm.InitializeH = true
				opts = append(opts, is)
			}
			e, v, err := eigensystem.Run(a, opts...)
			if fail(err) {
				return
			}
			res.vals, res.f[0] = toV(e), toF(v)
		case "svd":
			opts := []interface{}{svd.ComputeU{Value: c.Cu}, svd.ComputeV{Value: c.Cv}}
			if c.Eps == 1 {
				opts = append(opts, svd.Epsilon{Value: epsOf(c)})
			}
			if reuse {
				is := &svd.InSitu{}
				svd.Run(pm, svd.ComputeU{Value: true}, svd.ComputeV{Value: true}, is)
				opts = append(opts, is)
			}
			h, u, v, err := svd.Run(a, opts...)
			if fail(err) {
				return
			}
			res.f[0], res.f[1], res.f[2] = toF(u), toF(h), toF(v)
			if res.f[1] != nil {
				res.vals = make([]float64, n)
				for i := 0; i < n; i++ {
					res.vals[i] = res.f[1][i][i]
				}
			}
		case "msqrt":
			x, err := msqrt.Run(a)
			if fail(err) {
				return
			}
			res.f[0] = toF(x)
		case "msqrtinv":
			x, err := msqrtInv.Run(a)
			if fail(err) {
				return
			}
			res.f[0] = toF(x)
		default:
			vh.Fatal("no binding for routine", c.Routine)
		}
	}
	if msg := vh.Try(body); msg != "" {
		res = result{outcome: "panic", msg: msg}
	}
	return res
}

/* ------------------------------------------------------------------ per-case state */

type state struct {
	cs     int
	f64    map[string]result // last Float64 result per option combination
	middle map[string]result // result of the combination that computes every factor
}

func newState() *state { return &state{cs: -1} }

func comboKey(c call) string {
	return fmt.Sprintf("%s|%s|%v|%v|%v|%v|%d", c.Routine, c.Buf, c.Cu, c.Cv, c.Vec, c.Setzero, c.Eps)
}
func middleKey(c call) string {
	return fmt.Sprintf("%s|%s|%s|%v|%d", c.Routine, c.Typ, c.Buf, c.Setzero, c.Eps)
}

func (st *state) execute(c call) *event {
	if st.cs != c.Case {
		st.cs, st.f64, st.middle = c.Case, map[string]result{}, map[string]result{}
	}
	cs := &cases[c.Case]
	ct := ctr[c.Routine]
	a := matOf(cs)
	in := mkMatrix(c.Typ, a)
	res := runCall(c, in, ct.Input)
	ev := baseEvent(c)
	ev.Outcome, ev.Msg = res.outcome, res.msg
	if len(ev.Msg) > 200 {
		ev.Msg = ev.Msg[:200]
	}
	after := toF(in)
	ev.InputMod = !sameF(after, a, 0)
	project(ev, c, cs, ct, a, res)
	// element types must agree
	if c.Typ == "f64" {
		st.f64[comboKey(c)] = res
	} else if ref, ok := st.f64[comboKey(c)]; ok {
		ev.AgreeA = true
		ev.Agree = ref.outcome == res.outcome && sameV(ref.vals, res.vals, 1e-12) &&
			sameF(ref.f[0], res.f[0], 1e-12) && sameF(ref.f[1], res.f[1], 1e-12) && sameF(ref.f[2], res.f[2], 1e-12)
	}
	// the middle factor / the values do not depend on which outer factors are requested
	full := (!has(ct.Opts, "cu") || c.Cu) && (!has(ct.Opts, "cv") || c.Cv) && (!has(ct.Opts, "vec") || c.Vec)
	if full {
		st.middle[middleKey(c)] = res
	} else if ref, ok := st.middle[middleKey(c)]; ok && ref.outcome == "ok" && res.outcome == "ok" {
		ev.MiddleA = true
		tol := 1e-9 * (1 + frob(a))
		if ct.Eq == "eig" {
			ev.Middle = sameV(ref.vals, res.vals, tol)
		} else {
			ev.Middle = sameAbsF(ref.f[1], res.f[1], tol)
		}
	}
	return ev
}
