// Conformance driver for C17 (parallel estimation is schedule independent and
// race free).
//
//	pool run <results.ndjson> <trace.ndjson> <nTraceRuns> <nDiffRuns>
//
// For every scenario (estimator family + data set) the estimator is run
// sequentially (nil pool) and on thread pools of several sizes / buffer sizes /
// GOMAXPROCS, with seeded random delays injected through the verif hook of
// statistics/generic to diversify schedules.
//   - trace runs (small pools, few observations): every hook event is logged to
//     trace.ndjson; spec/ParallelEMTrace.tla must explain each recorded schedule
//     as a behaviour of spec/ParallelEM.tla and balance the likelihood ledger;
//   - differential runs (all scenarios, larger pools/data): estimates and hook
//     likelihoods must equal the sequential run up to reduction-order tolerance;
//   - the binary is built with -race by the orchestrator; race reports are read
//     from the GORACE log; a run that does not return within the watchdog limit
//     is reported as a deadlock.
package main

import (
	"fmt"
	"math"
	"math/rand"
	"os"
	"runtime"
	"strconv"
	"sync"
	"time"

	. "github.com/pbenner/autodiff"
	. "github.com/pbenner/autodiff/statistics"
	"github.com/pbenner/autodiff/statistics/generic"
	"github.com/pbenner/autodiff/statistics/matrixEstimator"
	"github.com/pbenner/autodiff/statistics/scalarEstimator"
	"github.com/pbenner/autodiff/statistics/vectorEstimator"
	. "github.com/pbenner/threadpool"
	"verifharness/vh"
)

type result struct {
	Params []float64
	Liks   []float64
	Err    string
}

type scenario struct {
	name   string
	hooked string // "" | "em" | "bw" : which generic step's hooks fire
	run    func(p ThreadPool, size int, seed int64) result
}

// scenarios whose pooled run must come BEFORE the sequential one (lazily built shared tables are cold only once)
var parFirstAlways = map[string]bool{"smix-poisson-cold": true}

// grows with every run of the cold-table scenario, so that each run needs table entries nobody has asked for yet
var coldOffset = 0

// ------------------------------------------------------------------ data

func normalData(rng *rand.Rand, n int) []float64 {
	x := make([]float64, n)
	for i := range x {
		if i%2 == 0 {
			x[i] = -2 + rng.NormFloat64()
		} else {
			x[i] = 2 + rng.NormFloat64()
		}
		x[i] = math.Round(x[i]*16) / 16
	}
	return x
}

func countData(rng *rand.Rand, n int, k int) []float64 {
	x := make([]float64, n)
	for i := range x {
		x[i] = float64(rng.Intn(k))
	}
	return x
}

func params(v interface{ GetParameters() Vector }) []float64 {
	p := v.GetParameters()
	r := make([]float64, p.Dim())
	for i := range r {
		r[i] = p.Float64At(i)
	}
	return r
}

func errStr(err error) string {
	if err == nil {
		return ""
	}
	return err.Error()
}

// ------------------------------------------------------------------ scenarios

func scalarMixture(mk func() []ScalarEstimator, data func(*rand.Rand, int) []float64) func(ThreadPool, int, int64) result {
	return scalarMixtureOpt(mk, data, true, false)
}

// optimizeEmissions = false: weights-only EM; summarized = true: DiscreteMixtureEstimator on (value, count) data
func scalarMixtureOpt(mk func() []ScalarEstimator, data func(*rand.Rand, int) []float64, optimizeEmissions, summarized bool) func(ThreadPool, int, int64) result {
	return func(p ThreadPool, size int, seed int64) result {
		if summarized {
			return summarizedMixture(mk, data, p, size, seed)
		}
		rng := rand.New(rand.NewSource(seed))
		liks := []float64{}
		hook := generic.EmHook{Value: func(m generic.BasicMixture, i int, l, e float64) {
			if i > 0 {
				liks = append(liks, l)
			}
		}}
		est, err := scalarEstimator.NewMixtureEstimator([]float64{1, 2}, mk(), 0.0, 3, hook)
		if err != nil {
			return result{Err: "construct: " + err.Error()}
		}
		est.OptimizeEmissions = optimizeEmissions
		x := NewDenseFloat64Vector(data(rng, size))
		if err := est.EstimateOnData(x, nil, p); err != nil {
			return result{Err: err.Error(), Liks: liks}
		}
		d, err := est.GetEstimate()
		if err != nil {
			return result{Err: err.Error(), Liks: liks}
		}
		return result{Params: params(d), Liks: liks}
	}
}

func summarizedMixture(mk func() []ScalarEstimator, data func(*rand.Rand, int) []float64, p ThreadPool, size int, seed int64) result {
	rng := rand.New(rand.NewSource(seed))
	liks := []float64{}
	hook := generic.EmHook{Value: func(m generic.BasicMixture, i int, l, e float64) {
		if i > 0 {
			liks = append(liks, l)
		}
	}}
	est, err := scalarEstimator.NewDiscreteMixtureEstimator([]float64{1, 2}, mk(), 0.0, 3, hook)
	if err != nil {
		return result{Err: "construct: " + err.Error()}
	}
	x := NewDenseFloat64Vector(data(rng, 3*size+4))
	if err := est.SetData(x, x.Dim()); err != nil {
		return result{Err: err.Error()}
	}
	if err := est.Estimate(nil, p); err != nil {
		return result{Err: err.Error(), Liks: liks}
	}
	d, err := est.GetEstimate()
	if err != nil {
		return result{Err: err.Error(), Liks: liks}
	}
	return result{Params: params(d), Liks: liks}
}

func hmmScenario(mk func() []ScalarEstimator, data func(*rand.Rand, int) []float64, start, final []int) func(ThreadPool, int, int64) result {
	return hmmScenarioOpt(mk, data, start, final, 0, true)
}

// chunk > 0: HmmEstimator.ChunkSize; optimizeTransitions = false: Baum-Welch with the transition matrix held fixed
func hmmScenarioOpt(mk func() []ScalarEstimator, data func(*rand.Rand, int) []float64, start, final []int, chunk int, optimizeTransitions bool) func(ThreadPool, int, int64) result {
	return func(p ThreadPool, size int, seed int64) result {
		rng := rand.New(rand.NewSource(seed))
		liks := []float64{}
		hook := generic.BaumWelchHook{Value: func(h generic.BasicHmm, i int, l, e float64) {
			if i > 0 {
				liks = append(liks, l)
			}
		}}
		pi := NewDenseFloat64Vector([]float64{0.6, 0.4})
		tr := NewDenseFloat64Matrix([]float64{0.7, 0.3, 0.4, 0.6}, 2, 2)
		est, err := vectorEstimator.NewHmmEstimator(pi, tr, nil, start, final, mk(), 0.0, 3, hook)
		if err != nil {
			return result{Err: "construct: " + err.Error()}
		}
		est.ChunkSize = chunk
		est.OptimizeTransitions = optimizeTransitions
		xs := make([]ConstVector, size)
		for i := range xs {
			xs[i] = NewDenseFloat64Vector(data(rng, 5+rng.Intn(4)))
		}
		if err := est.EstimateOnData(xs, nil, p); err != nil {
			return result{Err: err.Error(), Liks: liks}
		}
		d, err := est.GetEstimate()
		if err != nil {
			return result{Err: err.Error(), Liks: liks}
		}
		return result{Params: params(d), Liks: liks}
	}
}

type scalarEst interface {
	EstimateOnData(x, gamma ConstVector, p ThreadPool) error
	GetEstimate() (ScalarPdf, error)
}

func plainScalar(mk func() (scalarEst, error), data func(*rand.Rand, int) []float64, weighted bool) func(ThreadPool, int, int64) result {
	return func(p ThreadPool, size int, seed int64) result {
		rng := rand.New(rand.NewSource(seed))
		est, err := mk()
		if err != nil {
			return result{Err: "construct: " + err.Error()}
		}
		x := NewDenseFloat64Vector(data(rng, size))
		var gamma ConstVector
		if weighted {
			g := make([]float64, size)
			for i := range g {
				g[i] = math.Log(float64(1 + rng.Intn(4)))
			}
			gamma = NewDenseFloat64Vector(g)
		}
		if err := est.EstimateOnData(x, gamma, p); err != nil {
			return result{Err: err.Error()}
		}
		d, err := est.GetEstimate()
		if err != nil {
			return result{Err: err.Error()}
		}
		return result{Params: params(d)}
	}
}

func normals() []ScalarEstimator {
	e1, _ := scalarEstimator.NewNormalEstimator(-1, 2, 1e-3)
	e2, _ := scalarEstimator.NewNormalEstimator(3, 2, 1e-3)
	return []ScalarEstimator{e1, e2}
}
func poissons() []ScalarEstimator {
	e1, _ := scalarEstimator.NewPoissonEstimator(1.0)
	e2, _ := scalarEstimator.NewPoissonEstimator(4.0)
	return []ScalarEstimator{e1, e2}
}
func categoricals() []ScalarEstimator {
	e1, _ := scalarEstimator.NewCategoricalEstimator([]float64{0.1, 0.9})
	e2, _ := scalarEstimator.NewCategoricalEstimator([]float64{0.7, 0.3})
	return []ScalarEstimator{e1, e2}
}
func binary(rng *rand.Rand, n int) []float64 { return countData(rng, n, 2) }
func counts(rng *rand.Rand, n int) []float64 { return countData(rng, n, 7) }
func positive(rng *rand.Rand, n int) []float64 {
	x := make([]float64, n)
	for i := range x {
		x[i] = float64(1+rng.Intn(40)) / 8
	}
	return x
}

func vectorNormal(p ThreadPool, size int, seed int64) result {
	rng := rand.New(rand.NewSource(seed))
	est, err := vectorEstimator.NewNormalEstimator([]float64{0, 0}, []float64{1, 0, 0, 1}, 1e-3)
	if err != nil {
		return result{Err: "construct: " + err.Error()}
	}
	xs := make([]ConstVector, size+2)
	for i := range xs {
		xs[i] = NewDenseFloat64Vector([]float64{math.Round(rng.NormFloat64()*8) / 8, math.Round((1+2*rng.NormFloat64())*8) / 8})
	}
	if err := est.EstimateOnData(xs, nil, p); err != nil {
		return result{Err: err.Error()}
	}
	d, err := est.GetEstimate()
	if err != nil {
		return result{Err: err.Error()}
	}
	return result{Params: params(d)}
}

func vectorMixture(p ThreadPool, size int, seed int64) result {
	rng := rand.New(rand.NewSource(seed))
	liks := []float64{}
	hook := generic.EmHook{Value: func(m generic.BasicMixture, i int, l, e float64) {
		if i > 0 {
			liks = append(liks, l)
		}
	}}
	mk := func(mu float64) VectorEstimator {
		v, err := vectorEstimator.NewNormalEstimator([]float64{mu, mu}, []float64{2, 0, 0, 2}, 0.25)
		if err != nil {
			panic(err)
		}
		return v
	}
	est, err := vectorEstimator.NewMixtureEstimator([]float64{1, 1}, []VectorEstimator{mk(-1), mk(2)}, 0.0, 3, hook)
	if err != nil {
		return result{Err: "construct: " + err.Error()}
	}
	// enough observations per component to stay away from singular covariance estimates: at the edge
	// of singularity the reduction order alone decides whether the estimate is positive definite
	xs := make([]ConstVector, size+12)
	for i := range xs {
		xs[i] = NewDenseFloat64Vector(normalData(rng, 2))
	}
	if err := est.EstimateOnData(xs, nil, p); err != nil {
		return result{Err: err.Error(), Liks: liks}
	}
	d, err := est.GetEstimate()
	if err != nil {
		return result{Err: err.Error(), Liks: liks}
	}
	return result{Params: params(d), Liks: liks}
}

// HMM whose emissions are scalar mixtures: the per-emission jobs of Emissions call the
// mixture estimator's Estimate, which submits jobs to the same pool and waits for them
// from a worker thread (nested job groups, spec/PoolNested.tla); differential only
func nestedMixtures() []ScalarEstimator {
	mk := func(a, b float64) ScalarEstimator {
		e1, _ := scalarEstimator.NewNormalEstimator(a, 1.5, 1e-2)
		e2, _ := scalarEstimator.NewNormalEstimator(b, 1.5, 1e-2)
		m, err := scalarEstimator.NewMixtureEstimator([]float64{1, 1}, []ScalarEstimator{e1, e2}, 1e-8, -1)
		if err != nil {
			panic(err)
		}
		return m
	}
	return []ScalarEstimator{mk(-3, -1), mk(1, 3)}
}

// every sequence is impossible under the model (deterministic emissions, last symbol excluded by the final
// state): the E-step job fails; sequential and pooled run must fail alike, after the same hook calls
func deterministicCategoricals() []ScalarEstimator {
	e1, _ := scalarEstimator.NewCategoricalEstimator([]float64{1.0, 0.0})
	e2, _ := scalarEstimator.NewCategoricalEstimator([]float64{0.0, 1.0})
	return []ScalarEstimator{e1, e2}
}
func endsInOne(rng *rand.Rand, n int) []float64 {
	x := countData(rng, n, 2)
	x[len(x)-1] = 1
	return x
}

func manyNormals(k int) func() []ScalarEstimator {
	return func() []ScalarEstimator {
		r := make([]ScalarEstimator, k)
		for i := range r {
			r[i], _ = scalarEstimator.NewNormalEstimator(float64(2*i-k), 2, 1e-3)
		}
		return r
	}
}

// mixture with more components than some pools have threads: the per-component jobs of the M-step
// queue up behind each other
func scalarMixtureK(k int) func(ThreadPool, int, int64) result {
	return func(p ThreadPool, size int, seed int64) result {
		rng := rand.New(rand.NewSource(seed))
		liks := []float64{}
		hook := generic.EmHook{Value: func(m generic.BasicMixture, i int, l, e float64) {
			if i > 0 {
				liks = append(liks, l)
			}
		}}
		w := make([]float64, k)
		for i := range w {
			w[i] = float64(1 + i)
		}
		est, err := scalarEstimator.NewMixtureEstimator(w, manyNormals(k)(), 0.0, 3, hook)
		if err != nil {
			return result{Err: "construct: " + err.Error()}
		}
		x := NewDenseFloat64Vector(normalData(rng, size+3*k))
		if err := est.EstimateOnData(x, nil, p); err != nil {
			return result{Err: err.Error(), Liks: liks}
		}
		d, err := est.GetEstimate()
		if err != nil {
			return result{Err: err.Error(), Liks: liks}
		}
		return result{Params: params(d), Liks: liks}
	}
}

func vectorMixtureK(k int) func(ThreadPool, int, int64) result {
	return func(p ThreadPool, size int, seed int64) result {
		rng := rand.New(rand.NewSource(seed))
		liks := []float64{}
		hook := generic.EmHook{Value: func(m generic.BasicMixture, i int, l, e float64) {
			if i > 0 {
				liks = append(liks, l)
			}
		}}
		w := make([]float64, k)
		ests := make([]VectorEstimator, k)
		for i := range ests {
			w[i] = 1
			v, err := vectorEstimator.NewNormalEstimator([]float64{float64(2*i - k), float64(k - 2*i)}, []float64{3, 0, 0, 3}, 0.25)
			if err != nil {
				return result{Err: "construct: " + err.Error()}
			}
			ests[i] = v
		}
		est, err := vectorEstimator.NewMixtureEstimator(w, ests, 0.0, 3, hook)
		if err != nil {
			return result{Err: "construct: " + err.Error()}
		}
		xs := make([]ConstVector, size+12*k)
		for i := range xs {
			xs[i] = NewDenseFloat64Vector(normalData(rng, 2))
		}
		if err := est.EstimateOnData(xs, nil, p); err != nil {
			return result{Err: err.Error(), Liks: liks}
		}
		d, err := est.GetEstimate()
		if err != nil {
			return result{Err: err.Error(), Liks: liks}
		}
		return result{Params: params(d), Liks: liks}
	}
}

// independent scalar estimators per dimension (ScalarId), one estimator for all dimensions (ScalarIid),
// and the batch variant (ScalarBatchId)
func scalarIdScenario(kind string, weighted bool) func(ThreadPool, int, int64) result {
	return func(p ThreadPool, size int, seed int64) result {
		rng := rand.New(rand.NewSource(seed))
		e1, _ := scalarEstimator.NewNormalEstimator(0, 1, 1e-3)
		e2, _ := scalarEstimator.NewPoissonEstimator(1)
		e3, _ := scalarEstimator.NewGeometricEstimator(0.5)
		e4, _ := scalarEstimator.NewNormalEstimator(5, 3, 1e-3)
		var est interface {
			EstimateOnData(x []ConstVector, gamma ConstVector, p ThreadPool) error
			GetEstimate() (VectorPdf, error)
		}
		var err error
		dim := 4
		switch kind {
		case "id":
			est, err = vectorEstimator.NewScalarId(e1, e2, e3, e4)
		case "iid":
			est, err = vectorEstimator.NewScalarIid(e2, dim)
		}
		if err != nil {
			return result{Err: "construct: " + err.Error()}
		}
		n := size + 3
		xs := make([]ConstVector, n)
		for i := range xs {
			v := []float64{math.Round(rng.NormFloat64()*8) / 8, float64(rng.Intn(7)), float64(rng.Intn(5)), math.Round((5+3*rng.NormFloat64())*8) / 8}
			if kind == "iid" {
				v = []float64{float64(rng.Intn(7)), float64(rng.Intn(4)), float64(rng.Intn(9)), float64(rng.Intn(3))}
			}
			xs[i] = NewDenseFloat64Vector(v)
		}
		var gamma ConstVector
		if weighted {
			g := make([]float64, n)
			for i := range g {
				g[i] = math.Log(float64(1 + rng.Intn(4)))
			}
			gamma = NewDenseFloat64Vector(g)
		}
		if err := est.EstimateOnData(xs, gamma, p); err != nil {
			return result{Err: err.Error()}
		}
		d, err := est.GetEstimate()
		if err != nil {
			return result{Err: err.Error()}
		}
		return result{Params: params(d)}
	}
}

// ---- matrix-valued observations: matrixEstimator.HmmEstimator (rows = positions, emissions = ScalarId(normal,
// poisson)), matrixEstimator.MixtureEstimator over VectorId(ScalarId, ScalarId) components, matrixEstimator.VectorId
func rowMatrix(rng *rand.Rand, n int) ConstMatrix {
	v := make([]float64, 2*n)
	for i := 0; i < n; i++ {
		c := float64(2*(i%2)) - 1
		v[2*i] = math.Round((2*c+rng.NormFloat64())*16) / 16
		v[2*i+1] = float64(rng.Intn(3) + (i%2)*3)
	}
	return NewDenseFloat64Matrix(v, n, 2)
}

func idEmission(mu, lambda float64) VectorEstimator {
	e1, _ := scalarEstimator.NewNormalEstimator(mu, 1.5, 1e-2)
	e2, _ := scalarEstimator.NewPoissonEstimator(lambda)
	v, err := vectorEstimator.NewScalarId(e1, e2)
	if err != nil {
		panic(err)
	}
	return v
}

func matrixHmm(chunk int) func(ThreadPool, int, int64) result {
	return func(p ThreadPool, size int, seed int64) result {
		rng := rand.New(rand.NewSource(seed))
		liks := []float64{}
		hook := generic.BaumWelchHook{Value: func(h generic.BasicHmm, i int, l, e float64) {
			if i > 0 {
				liks = append(liks, l)
			}
		}}
		pi := NewDenseFloat64Vector([]float64{0.6, 0.4})
		tr := NewDenseFloat64Matrix([]float64{0.7, 0.3, 0.4, 0.6}, 2, 2)
		est, err := matrixEstimator.NewHmmEstimator(pi, tr, nil, nil, nil, []VectorEstimator{idEmission(-2, 1), idEmission(1, 3)}, 0.0, 3, hook)
		if err != nil {
			return result{Err: "construct: " + err.Error()}
		}
		est.ChunkSize = chunk
		xs := make([]ConstMatrix, size)
		for i := range xs {
			xs[i] = rowMatrix(rng, 5+rng.Intn(4))
		}
		if err := est.EstimateOnData(xs, nil, p); err != nil {
			return result{Err: err.Error(), Liks: liks}
		}
		d, err := est.GetEstimate()
		if err != nil {
			return result{Err: err.Error(), Liks: liks}
		}
		return result{Params: params(d), Liks: liks}
	}
}

func matrixMixture(p ThreadPool, size int, seed int64) result {
	rng := rand.New(rand.NewSource(seed))
	liks := []float64{}
	hook := generic.EmHook{Value: func(m generic.BasicMixture, i int, l, e float64) {
		if i > 0 {
			liks = append(liks, l)
		}
	}}
	comp := func(mu, lambda float64) MatrixEstimator {
		m, err := matrixEstimator.NewVectorId(idEmission(mu, lambda), idEmission(mu+1, lambda+1), idEmission(mu-1, lambda))
		if err != nil {
			panic(err)
		}
		return m
	}
	est, err := matrixEstimator.NewMixtureEstimator([]float64{1, 2}, []MatrixEstimator{comp(-2, 1), comp(1, 3)}, 0.0, 3, hook)
	if err != nil {
		return result{Err: "construct: " + err.Error()}
	}
	xs := make([]ConstMatrix, size+4)
	for i := range xs {
		xs[i] = rowMatrix(rng, 3)
	}
	if err := est.EstimateOnData(xs, nil, p); err != nil {
		return result{Err: err.Error(), Liks: liks}
	}
	d, err := est.GetEstimate()
	if err != nil {
		return result{Err: err.Error(), Liks: liks}
	}
	return result{Params: params(d), Liks: liks}
}

func structuredHmm(kind string) func(ThreadPool, int, int64) result {
	return func(p ThreadPool, size int, seed int64) result {
		rng := rand.New(rand.NewSource(seed))
		liks := []float64{}
		hook := generic.BaumWelchHook{Value: func(h generic.BasicHmm, i int, l, e float64) {
			if i > 0 {
				liks = append(liks, l)
			}
		}}
		var est *vectorEstimator.HmmEstimator
		var err error
		switch kind {
		case "constrained":
			pi := NewDenseFloat64Vector([]float64{0.5, 0.3, 0.2})
			tr := NewDenseFloat64Matrix([]float64{0.4, 0.3, 0.3, 0.3, 0.4, 0.3, 0.3, 0.3, 0.4}, 3, 3)
			c1, _ := generic.NewEqualityConstraint([]int{0, 1, 1, 0})
			c2, _ := generic.NewEqualityConstraint([]int{0, 2, 1, 2})
			est, err = vectorEstimator.NewConstrainedHmmEstimator(pi, tr, []int{0, 1, 1}, nil, nil, []generic.EqualityConstraint{c1, c2}, categoricals(), 0.0, 3, hook)
		case "hierarchical":
			pi := NewDenseFloat64Vector([]float64{0.4, 0.2, 0.2, 0.2})
			tr := NewDenseFloat64Matrix([]float64{
				0.5, 0.3, 0.1, 0.1,
				0.3, 0.5, 0.1, 0.1,
				0.1, 0.1, 0.5, 0.3,
				0.1, 0.1, 0.3, 0.5}, 4, 4)
			tree := generic.NewHmmNode(generic.NewHmmLeaf(0, 2), generic.NewHmmLeaf(2, 4))
			est, err = vectorEstimator.NewHierarchicalHmmEstimator(pi, tr, []int{0, 1, 0, 1}, nil, nil, tree, categoricals(), 0.0, 3, hook)
		}
		if err != nil {
			return result{Err: "construct: " + err.Error()}
		}
		xs := make([]ConstVector, size)
		for i := range xs {
			xs[i] = NewDenseFloat64Vector(binary(rng, 5+rng.Intn(4)))
		}
		if err := est.EstimateOnData(xs, nil, p); err != nil {
			return result{Err: err.Error(), Liks: liks}
		}
		d, err := est.GetEstimate()
		if err != nil {
			return result{Err: err.Error(), Liks: liks}
		}
		return result{Params: params(d), Liks: liks}
	}
}

func sparseOf(x []float64) ConstVector {
	idx := []int{}
	val := []float64{}
	for i, v := range x {
		if v != 0 {
			idx = append(idx, i)
			val = append(val, v)
		}
	}
	return NewSparseFloat64Vector(idx, val, len(x))
}

// ONE sequence, handed over as a sparse vector with positions that are not stored: reading it must not write it
func sparseHmm(p ThreadPool, size int, seed int64) result {
	rng := rand.New(rand.NewSource(seed))
	liks := []float64{}
	hook := generic.BaumWelchHook{Value: func(h generic.BasicHmm, i int, l, e float64) {
		if i > 0 {
			liks = append(liks, l)
		}
	}}
	pi := NewDenseFloat64Vector([]float64{0.6, 0.4})
	tr := NewDenseFloat64Matrix([]float64{0.7, 0.3, 0.4, 0.6}, 2, 2)
	est, err := vectorEstimator.NewHmmEstimator(pi, tr, nil, nil, nil, categoricals(), 0.0, 3, hook)
	if err != nil {
		return result{Err: "construct: " + err.Error()}
	}
	x := sparseOf(binary(rng, 20+6*size))
	if err := est.EstimateOnData([]ConstVector{x}, nil, p); err != nil {
		return result{Err: err.Error(), Liks: liks}
	}
	d, err := est.GetEstimate()
	if err != nil {
		return result{Err: err.Error(), Liks: liks}
	}
	return result{Params: params(d), Liks: liks}
}

// scalar mixture on a sparse data vector (counts with many zeros)
func sparseMixture(p ThreadPool, size int, seed int64) result {
	rng := rand.New(rand.NewSource(seed))
	liks := []float64{}
	hook := generic.EmHook{Value: func(m generic.BasicMixture, i int, l, e float64) {
		if i > 0 {
			liks = append(liks, l)
		}
	}}
	est, err := scalarEstimator.NewMixtureEstimator([]float64{1, 2}, poissons(), 0.0, 3, hook)
	if err != nil {
		return result{Err: "construct: " + err.Error()}
	}
	raw := countData(rng, 12+3*size, 5)
	for i := range raw {
		if i%3 != 0 {
			raw[i] = 0
		}
	}
	if err := est.EstimateOnData(sparseOf(raw), nil, p); err != nil {
		return result{Err: err.Error(), Liks: liks}
	}
	d, err := est.GetEstimate()
	if err != nil {
		return result{Err: err.Error(), Liks: liks}
	}
	return result{Params: params(d), Liks: liks}
}

// Poisson components evaluated at counts no earlier run has asked for (tables built on demand are cold),
// pooled run first
func coldPoissonMixture(p ThreadPool, size int, seed int64) result {
	rng := rand.New(rand.NewSource(seed))
	liks := []float64{}
	hook := generic.EmHook{Value: func(m generic.BasicMixture, i int, l, e float64) {
		if i > 0 {
			liks = append(liks, l)
		}
	}}
	off := float64(coldOffset)
	e1, _ := scalarEstimator.NewPoissonEstimator(off + 1)
	e2, _ := scalarEstimator.NewPoissonEstimator(off + 5)
	est, err := scalarEstimator.NewMixtureEstimator([]float64{1, 2}, []ScalarEstimator{e1, e2}, 0.0, 3, hook)
	if err != nil {
		return result{Err: "construct: " + err.Error()}
	}
	raw := countData(rng, 24+3*size, 9)
	for i := range raw {
		raw[i] += off
	}
	if err := est.EstimateOnData(NewDenseFloat64Vector(raw), nil, p); err != nil {
		return result{Err: err.Error(), Liks: liks}
	}
	d, err := est.GetEstimate()
	if err != nil {
		return result{Err: err.Error(), Liks: liks}
	}
	return result{Params: params(d), Liks: liks}
}

// outer mixture whose components are CLONES of one inner mixture estimator, configured differently after
// cloning (one keeps its weights fixed): the clones are estimated concurrently by the M-step
func clonedNestedMixture(p ThreadPool, size int, seed int64) result {
	rng := rand.New(rand.NewSource(seed))
	liks := []float64{}
	hook := generic.EmHook{Value: func(m generic.BasicMixture, i int, l, e float64) {
		if i > 0 {
			liks = append(liks, l)
		}
	}}
	e1, _ := scalarEstimator.NewNormalEstimator(-1, 1.5, 1e-2)
	e2, _ := scalarEstimator.NewNormalEstimator(1, 1.5, 1e-2)
	inner := generic.EmHook{} // an optional argument, so that the prototype owns an args slice
	proto, err := scalarEstimator.NewMixtureEstimator([]float64{1, 3}, []ScalarEstimator{e1, e2}, 1e-8, -1, inner)
	if err != nil {
		return result{Err: "construct: " + err.Error()}
	}
	comps := make([]ScalarEstimator, 4)
	for i := range comps {
		c := proto.CloneScalarEstimator().(*scalarEstimator.MixtureEstimator)
		c.OptimizeWeights = i%2 == 0
		comps[i] = c
	}
	est, err := scalarEstimator.NewMixtureEstimator([]float64{1, 1, 1, 1}, comps, 0.0, 3, hook)
	if err != nil {
		return result{Err: "construct: " + err.Error()}
	}
	x := NewDenseFloat64Vector(normalData(rng, 16+size))
	if err := est.EstimateOnData(x, nil, p); err != nil {
		return result{Err: err.Error(), Liks: liks}
	}
	d, err := est.GetEstimate()
	if err != nil {
		return result{Err: err.Error(), Liks: liks}
	}
	return result{Params: params(d), Liks: liks}
}

func scenarios() []scenario {
	return []scenario{
		{"vhmm-nested-mixture", "", hmmScenario(nestedMixtures, normalData, nil, nil)},
		{"smix-normal", "em", scalarMixture(normals, normalData)},
		{"smix-poisson", "em", scalarMixture(poissons, counts)},
		{"smix-normal-weights-only", "em", scalarMixtureOpt(normals, normalData, false, false)},
		{"dmix-poisson-summarized", "em", scalarMixtureOpt(poissons, counts, true, true)},
		{"vhmm-categorical", "bw", hmmScenario(categoricals, binary, nil, nil)},
		{"vhmm-normal", "bw", hmmScenario(normals, normalData, nil, nil)},
		{"vhmm-categorical-startfinal", "bw", hmmScenario(categoricals, binary, []int{0}, []int{0})},
		{"vmix-normal", "em", vectorMixture},
		{"normal", "", plainScalar(func() (scalarEst, error) { return scalarEstimator.NewNormalEstimator(0, 1, 1e-3) }, normalData, false)},
		{"normal-weighted", "", plainScalar(func() (scalarEst, error) { return scalarEstimator.NewNormalEstimator(0, 1, 1e-3) }, normalData, true)},
		{"exponential", "", plainScalar(func() (scalarEst, error) { return scalarEstimator.NewExponentialEstimator(1, 100) }, positive, false)},
		{"exponential-weighted", "", plainScalar(func() (scalarEst, error) { return scalarEstimator.NewExponentialEstimator(1, 100) }, positive, true)},
		{"poisson", "", plainScalar(func() (scalarEst, error) { return scalarEstimator.NewPoissonEstimator(1) }, counts, true)},
		{"poisson-unweighted", "", plainScalar(func() (scalarEst, error) { return scalarEstimator.NewPoissonEstimator(1) }, counts, false)},
		{"geometric-unweighted", "", plainScalar(func() (scalarEst, error) { return scalarEstimator.NewGeometricEstimator(0.5) }, counts, false)},
		{"categorical-unweighted", "", plainScalar(func() (scalarEst, error) {
			return scalarEstimator.NewCategoricalEstimator([]float64{0.2, 0.2, 0.2, 0.1, 0.1, 0.1, 0.1})
		}, counts, false)},
		{"geometric", "", plainScalar(func() (scalarEst, error) { return scalarEstimator.NewGeometricEstimator(0.5) }, counts, true)},
		{"categorical", "", plainScalar(func() (scalarEst, error) {
			return scalarEstimator.NewCategoricalEstimator([]float64{0.2, 0.2, 0.2, 0.1, 0.1, 0.1, 0.1})
		}, counts, true)},
		{"vnormal", "", vectorNormal},
		{"smix-normal-5comp", "em", scalarMixtureK(5)},
		{"vmix-normal-3comp", "em", vectorMixtureK(3)},
		{"vmix-normal-4comp", "", vectorMixtureK(4)},
		{"vhmm-categorical-chunked", "bw", hmmScenarioOpt(categoricals, binary, nil, nil, 3, true)},
		{"vhmm-categorical-fixed-transitions", "", hmmScenarioOpt(categoricals, binary, nil, nil, 0, false)},
		{"vhmm-impossible-final", "", hmmScenarioOpt(deterministicCategoricals, endsInOne, nil, []int{0}, 0, true)},
		{"vscalarid", "", scalarIdScenario("id", false)},
		{"vscalarid-weighted", "", scalarIdScenario("id", true)},
		{"vscalariid-weighted", "", scalarIdScenario("iid", true)},
		{"mhmm-scalarid", "bw", matrixHmm(0)},
		{"mhmm-scalarid-chunked", "", matrixHmm(2)},
		{"mmix-vectorid", "em", matrixMixture},
		{"vhmm-categorical-sparse1", "", sparseHmm},
		{"smix-poisson-sparse", "", sparseMixture},
		{"smix-poisson-cold", "", coldPoissonMixture},
		{"smix-cloned-mixtures", "", clonedNestedMixture},
		{"vhmm-constrained", "bw", structuredHmm("constrained")},
		{"vhmm-hierarchical", "bw", structuredHmm("hierarchical")},
	}
}

// ------------------------------------------------------------------ hook recorder

type event struct {
	E     string `json:"e"`
	First bool   `json:"first"`
	W     int    `json:"w"`
	N     int    `json:"n"`
	B     int    `json:"b"`
	S     int    `json:"s"`
	Range bool   `json:"range"`
	T     int    `json:"t"`
	J     int    `json:"j"`
	Init  bool   `json:"init"`
	Lik   int    `json:"lik"`
}

type recorder struct {
	mu     sync.Mutex
	evs    []event
	rng    *rand.Rand
	delay  bool
	w, b   int
	used   map[int]bool
	mainOn bool
}

func scale(x float64) int {
	if math.IsNaN(x) || math.IsInf(x, 0) || math.Abs(x) > 2e6 {
		return 2000000000
	}
	return int(math.Round(x * 1000))
}

func (r *recorder) hook(ev string, thread, job int, init bool, lik float64) {
	var d time.Duration
	r.mu.Lock()
	e := event{T: thread, J: job, Init: init, Lik: scale(lik)}
	if job < 0 {
		e.J = 0
	}
	switch ev {
	case "em.begin", "bw.begin":
		e.E, e.W, e.N, e.B, e.Range = "begin", r.w, job, r.b, ev == "em.begin"
		e.T, e.J = 0, 0
	case "em.job.start", "bw.job.start":
		e.E = "start"
		r.used[thread] = true
		if r.delay && r.rng.Intn(2) == 0 {
			d = time.Duration(r.rng.Intn(150)) * time.Microsecond
		}
	case "em.job.end", "bw.job.end":
		e.E = "end"
	case "em.wait.return", "bw.wait.return":
		e.E = "waitret"
	case "em.merge", "bw.merge":
		e.E = "merge"
	case "em.end", "bw.end":
		e.E = "finish"
	default:
		e.E = "unknown:" + ev
	}
	r.evs = append(r.evs, e)
	r.mu.Unlock()
	if d > 0 {
		time.Sleep(d)
	} else if r.delay {
		runtime.Gosched()
	}
}

// ------------------------------------------------------------------ comparison

func close(a, b float64) bool {
	if math.IsNaN(a) || math.IsNaN(b) {
		return math.IsNaN(a) && math.IsNaN(b)
	}
	if math.IsInf(a, 0) || math.IsInf(b, 0) {
		return a == b
	}
	return math.Abs(a-b) <= 1e-8*(1+math.Abs(a)+math.Abs(b))
}

func sameResult(a, b result) string {
	if (a.Err == "") != (b.Err == "") {
		return fmt.Sprintf("error differs: sequential %q parallel %q", a.Err, b.Err)
	}
	if len(a.Params) != len(b.Params) {
		return "number of parameters differs"
	}
	for i := range a.Params {
		if !close(a.Params[i], b.Params[i]) {
			return fmt.Sprintf("parameter %d: sequential %v parallel %v", i, a.Params[i], b.Params[i])
		}
	}
	if len(a.Liks) != len(b.Liks) {
		return fmt.Sprintf("number of iterations differs: %d vs %d", len(a.Liks), len(b.Liks))
	}
	for i := range a.Liks {
		if !close(a.Liks[i], b.Liks[i]) {
			return fmt.Sprintf("hook likelihood of iteration %d: sequential %v parallel %v", i+1, a.Liks[i], b.Liks[i])
		}
	}
	return ""
}

func runGuarded(sc scenario, p ThreadPool, size int, seed int64, limit time.Duration) (res result, timedOut bool) {
	done := make(chan result, 1)
	go func() {
		var r result
		if msg := vh.Try(func() { r = sc.run(p, size, seed) }); msg != "" {
			r = result{Err: "panic: " + msg}
		}
		done <- r
	}()
	select {
	case r := <-done:
		return r, false
	case <-time.After(limit):
		return result{Err: "timeout"}, true
	}
}

func main() {
	if len(os.Args) < 6 || os.Args[1] != "run" {
		vh.Fatal("usage: pool run results trace nTraceRuns nDiffRuns")
	}
	out := vh.NewOut(os.Args[2])
	defer out.Close()
	trace := vh.NewOut(os.Args[3])
	defer trace.Close()
	nTrace, _ := strconv.Atoi(os.Args[4])
	nDiff, _ := strconv.Atoi(os.Args[5])
	seed := int64(vh.EnvInt("VERIF_SEED", 1))
	only := os.Getenv("POOL_ONLY") // replay of a single configuration: "scenario,w,b,size,procs,seed"
	scs := scenarios()
	rng := rand.New(rand.NewSource(seed * 7919))
	stats := vh.M{"trace_runs": 0, "diff_runs": 0, "runs_with_unused_thread": 0, "runs_main_worked": 0, "events": 0}
	inc := func(k string) { stats[k] = stats[k].(int) + 1 }
	limit := 30 * time.Second

	runIdx := 0
	start := vh.EnvInt("POOL_START", 0)
	doRun := func(sc scenario, w, b, size, procs int, rseed int64, traced bool) {
		runIdx++
		if runIdx <= start {
			return
		}
		jcfg := vh.M{"scenario": sc.name, "w": w, "b": b, "size": size, "procs": procs, "seed": rseed}
		// journal: a crash of the process (panic in a pool goroutine, fatal error) is attributed to this run
		// half of the differential runs (and every run of the cold-table scenarios) take the pooled run first
		parFirst := parFirstAlways[sc.name] || (!traced && runIdx%2 == 1)
		var seq, par result
		var timedOut bool
		var rec *recorder
		var pool ThreadPool
		runSeq := func() {
			out.Put(vh.M{"kind": "journal", "stage": "seq", "index": runIdx, "config": jcfg})
			out.Flush()
			seq, _ = runGuarded(sc, ThreadPool{}, size, rseed, limit)
		}
		runPar := func() {
			out.Put(vh.M{"kind": "journal", "stage": "par", "index": runIdx, "config": jcfg})
			out.Flush()
			trace.Flush()
			old := runtime.GOMAXPROCS(procs)
			rec = &recorder{rng: rand.New(rand.NewSource(rseed + 17)), delay: true, w: w, b: b, used: map[int]bool{}}
			if sc.hooked != "" {
				generic.VerifHook = rec.hook
			}
			pool = New(w, b)
			par, timedOut = runGuarded(sc, pool, size, rseed, limit)
			generic.VerifHook = nil
			runtime.GOMAXPROCS(old)
		}
		if sc.name == "smix-poisson-cold" {
			coldOffset += 9
		}
		if parFirst {
			runPar()
			if !timedOut {
				runSeq()
			}
		} else {
			runSeq()
			runPar()
		}
		cfg := vh.M{"scenario": sc.name, "w": w, "b": b, "size": size, "procs": procs, "seed": rseed}
		if timedOut {
			vh.Mismatch(out, vh.M{"engine": "pool", "what": "deadlock_or_timeout", "scenario": sc.name}, vh.M{"config": cfg, "limit_s": limit.Seconds()})
			return // the pool is left behind; its goroutines may be stuck
		}
		pool.Stop()
		if d := sameResult(seq, par); d != "" {
			vh.Mismatch(out, vh.M{"engine": "pool", "what": "differs_from_sequential", "scenario": sc.name},
				vh.M{"config": cfg, "difference": d, "sequential": seq, "parallel": par})
		}
		if sc.hooked != "" {
			if len(rec.used) < w {
				inc("runs_with_unused_thread")
			}
			if rec.used[0] {
				inc("runs_main_worked")
			}
		}
		if traced && sc.hooked != "" {
			// number of steps = number of begin events; patch cfg fields into the first begin
			rec.mu.Lock()
			steps := 0
			for _, e := range rec.evs {
				if e.E == "begin" {
					steps++
				}
			}
			first := true
			for i := range rec.evs {
				e := &rec.evs[i]
				if e.E == "begin" {
					e.First, e.S = first, steps
					first = false
				}
			}
			for _, e := range rec.evs {
				trace.Put(e)
			}
			stats["events"] = stats["events"].(int) + len(rec.evs)
			rec.mu.Unlock()
			out.Put(vh.M{"kind": "trace_run", "config": cfg, "events": len(rec.evs), "first_event": trace.N - len(rec.evs) + 1})
			inc("trace_runs")
		} else {
			inc("diff_runs")
		}
	}

	if only != "" {
		var name string
		var w, b, size, procs int
		var rs int64
		fmt.Sscanf(only, "%s", &name)
		parts := splitComma(only)
		name = parts[0]
		w, _ = strconv.Atoi(parts[1])
		b, _ = strconv.Atoi(parts[2])
		size, _ = strconv.Atoi(parts[3])
		procs, _ = strconv.Atoi(parts[4])
		rs, _ = strconv.ParseInt(parts[5], 10, 64)
		for _, sc := range scs {
			if sc.name == name {
				for rep := 0; rep < 20; rep++ {
					doRun(sc, w, b, size, procs, rs, sc.hooked != "")
				}
			}
		}
		vh.Summary(out, stats)
		return
	}

	procsOpts := []int{1, 2, 16}
	// trace-validated runs: small pools and few observations (constants of the trace specification stay small)
	for i := 0; i < nTrace; i++ {
		var hooked []scenario
		for _, sc := range scs {
			if sc.hooked != "" {
				hooked = append(hooked, sc)
			}
		}
		sc := hooked[i%len(hooked)]
		w := 2 + rng.Intn(3)
		b := []int{1, 2, 100}[rng.Intn(3)]
		size := 2 + rng.Intn(5)
		doRun(sc, w, b, size, procsOpts[rng.Intn(3)], seed*100003+int64(i), true)
	}
	// differential runs: every scenario, larger pools and data, pools larger than the number of jobs
	for i := 0; i < nDiff; i++ {
		sc := scs[i%len(scs)]
		w := []int{2, 3, 5, 8}[rng.Intn(4)]
		b := []int{1, 3, 100}[rng.Intn(3)]
		size := []int{2, 3, 7, 12, 40}[rng.Intn(5)]
		doRun(sc, w, b, size, procsOpts[rng.Intn(3)], seed*200003+int64(i), false)
	}
	vh.Summary(out, stats)
}

func splitComma(s string) []string {
	r := []string{}
	cur := ""
	for _, c := range s {
		if c == ',' {
			r = append(r, cur)
			cur = ""
		} else {
			cur += string(c)
		}
	}
	return append(r, cur)
}
