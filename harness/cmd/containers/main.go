// Conformance driver for vectors and matrices (C03, C09).
//
//	containers replay <cases.ndjson> <results.ndjson> <c03|c09>
//	    executes the cases TLC enumerated from spec/ContainersCases.tla on the
//	    real library: every record is instantiated for every element type and
//	    every combination of operand representations listed in the record
//	    (a.reps x b.reps), the receiver is built with the prescribed storage
//	    and prior content, the operation is called through the generic
//	    interface method and every element of the result is compared (==) with
//	    the content the specification printed.  In mode c09 the same case is
//	    also run through the capital-letter method on the concrete types
//	    (discovered by reflection) on freshly built operands; scalar cases
//	    (record field "sexp") are run generic vs concrete on all scalar types.
//	containers record <trace.ndjson> <nops> <ntraces>
//	    seeded random operation sequences over a pool of dense and sparse
//	    vectors / matrices, one event per call, validated afterwards by
//	    spec/ContainersTrace.tla.
//	containers walk <walks.ndjson> <results.ndjson>
//	    joint-iterator walks printed by spec/JointIter.tla compared with the
//	    real generic joint iterators.
//
// The driver only interprets: the expected values come out of TLC.
package main

import (
	"os"

	"verifharness/vh"
)

func main() {
	if len(os.Args) < 2 {
		vh.Fatal("usage: containers replay|record|walk ...")
	}
	switch os.Args[1] {
	case "replay":
		replay(os.Args[2:])
	case "record":
		record(os.Args[2:])
	case "walk":
		walk(os.Args[2:])
	default:
		vh.Fatal("unknown sub-command", os.Args[1])
	}
}
