package main

import (
	"encoding/json"
	"fmt"
	"math"
	"sort"

	. "github.com/pbenner/autodiff"
)

// ---- the records printed by TLC (spec/ContainersCases.tla) ----------------

type recvT struct {
	K    string   `json:"k"` // "d" dense, "s"/"z"/"h" sparse (which zeros are stored), "-" none
	Rows int      `json:"rows"`
	Cols int      `json:"cols"` // -1: vector of length Rows
	C    [][2]int `json:"c"`    // content (prior content of a receiver), duals [v, d]
	St   []int    `json:"st"`   // stored positions, 1-based
	Pc   string   `json:"pc"`
}

type opdT struct {
	Rows int              `json:"rows"`
	Cols int              `json:"cols"`
	C    [][2]int         `json:"c"`
	Reps map[string][]int `json:"reps"` // storage kind -> stored positions (1-based)
	F    []int            `json:"f"`    // special records: IEEE class per element (0 finite, 1 +Inf, 2 -Inf, 3 NaN, 4 -0)
}

// a view of a matrix: Slice(r0, r1, c0, c1), then T() if t
type viewT struct {
	T  bool `json:"t"`
	R0 int  `json:"r0"`
	R1 int  `json:"r1"`
	C0 int  `json:"c0"`
	C1 int  `json:"c1"`
}

func applyView(m Matrix, v *viewT) Matrix {
	r := m.Slice(v.R0, v.R1, v.C0, v.C1)
	if v.T {
		r = r.T()
	}
	return r
}

// symbolic integer relative to a bound of the element type (records sp = "ib")
type symT struct {
	B string `json:"b"` // "min", "zero", "max"
	O int    `json:"o"`
}

type expT struct {
	T string   `json:"t"` // "c" content, "b" boolean, "s" scalar
	C [][3]int `json:"c"` // triples [v, d, f]; f: 0 finite, 1 +Inf, 2 -Inf, 3 NaN
	B bool     `json:"b"`
}

type sexpT struct {
	T    string          `json:"t"` // "v"/"x" value (class f), "i" int result, "b" boolean, "term" symbolic term, "sym", "any"
	V    int             `json:"v"`
	F    int             `json:"f"`
	B    bool            `json:"b"`
	Term json.RawMessage `json:"term"`
	Sym  *symT           `json:"sym"`
}

type rec struct {
	Op   string `json:"op"`
	R    recvT  `json:"r"`
	A    opdT   `json:"a"`
	B    opdT   `json:"b"`
	S    [2]int `json:"s"`
	Dims [3]int `json:"dims"`
	Exp  *expT  `json:"exp"`
	// scalar cases
	P    int    `json:"p"`
	X    int    `json:"x"`
	Y    int    `json:"y"`
	Sexp *sexpT `json:"sexp"`
	// generic constructors / converters (op = "Ctor")
	// follow-up case sets: kind = "ratio" (non-integer quotients), "big" (values beyond single precision), "view"
	Kind   string `json:"kind"`
	Ascale int    `json:"ascale"` // operand a is multiplied by 2^ascale, the divisor (b / scalar) by 2^bscale
	Bscale int    `json:"bscale"`
	V1     *viewT `json:"v1"` // operands are views of the base matrix rc.A
	V2     *viewT `json:"v2"`
	Alias  string `json:"alias"` // scalar cases: the receiver is an operand ("ra", "rb", "rab")
	// Equals with an epsilon dimension: values are integers in units of 2^scale, epsilon = epsu units
	Scale int    `json:"scale"`
	Epsu  int    `json:"epsu"`
	Ctor  string `json:"ctor"`
	Probe *struct {
		X   symT `json:"x"`
		Y   symT `json:"y"`
		Res symT `json:"res"`
	} `json:"probe"`
	// special operands (C09): sp = "fs" float specials, "ib" integer bounds
	Sp string `json:"sp"`
	Sf int    `json:"sf"` // class of the scalar operand of a container record
	Xx [3]int `json:"xx"` // extended scalar operands [v, 0, class]
	Yy [3]int `json:"yy"`
	Xo *int   `json:"xo"` // derivative orders of the operands for the magic types
	Yo *int   `json:"yo"`
	Xb *symT  `json:"xb"`
	Yb *symT  `json:"yb"`
}

// ---- building real objects with a prescribed representation ---------------

// cont is a real vector or matrix (exactly one is set) or nothing.
type cont struct {
	vec  Vector
	cvec ConstVector // read-only vector (SparseConst*), vec == nil
	mat  Matrix
}

func (c cont) constVec() ConstVector {
	if c.vec != nil {
		return c.vec
	}
	return c.cvec
}

func (c cont) obj() interface{} {
	switch {
	case c.vec != nil:
		return c.vec
	case c.cvec != nil:
		return c.cvec
	case c.mat != nil:
		return c.mat
	}
	return nil
}

// elem builds a scalar of the element type; magic types carry the derivative
// with respect to one variable.
func (t *elemType) elem(v, d int) Scalar {
	s := NewScalar(t.st, float64(v))
	if t.class == "real" && (v != 0 || d != 0) { // <<0, d>>: a variable whose current value is zero
		m := s.(MagicScalar)
		m.Alloc(1, 1)
		m.SetDerivative(0, float64(d))
	}
	return s
}

// classValue maps an IEEE class code of the specification to a float64
func classValue(v int, f int) float64 {
	switch f {
	case 1:
		return math.Inf(1)
	case 2:
		return math.Inf(-1)
	case 3:
		return math.NaN()
	case 4:
		return math.Copysign(0, -1)
	}
	return float64(v)
}

// elemX builds a scalar holding an extended element (no derivatives)
func (t *elemType) elemX(v, d, f int) Scalar {
	if f == 0 {
		return t.elem(v, d)
	}
	return NewScalar(t.st, classValue(v, f))
}

func isDense(k string) bool { return k == "d" }

// build creates the container with the storage kind k, the content c and the
// explicitly stored positions st (1-based; relevant for sparse kinds only).
func (t *elemType) build(k string, rows, cols int, c [][2]int, st []int, constImpl bool) cont {
	return t.buildX(k, rows, cols, c, nil, st, constImpl)
}

// buildX: like build, with an IEEE class per element (f == nil: all finite)
func (t *elemType) buildX(k string, rows, cols int, c [][2]int, f []int, st []int, constImpl bool) cont {
	return t.buildS(k, rows, cols, c, f, st, constImpl, 0)
}

// buildS: like buildX, the finite values are c[i][0] * 2^scale (exact dyadic numbers; scale = 0: integers)
func (t *elemType) buildS(k string, rows, cols int, c [][2]int, f []int, st []int, constImpl bool, scale int) cont {
	if scale != 0 {
		f = make([]int, len(c)) // scaled elements take the elemS path below (class 0, no derivatives)
	}
	mk := func(v, d, cls int) Scalar {
		if scale != 0 {
			return NewScalar(t.st, math.Ldexp(float64(v), scale))
		}
		return t.elemX(v, d, cls)
	}
	cv := func(v, cls int) float64 {
		if scale != 0 {
			return math.Ldexp(float64(v), scale)
		}
		return classValue(v, cls)
	}
	cl := func(i int) int {
		if f == nil {
			return 0
		}
		return f[i]
	}
	nz := func(i int) bool { return c[i] != [2]int{0, 0} || cl(i) != 0 }
	if cols < 0 {
		n := rows
		if isDense(k) {
			v := NullDenseVector(t.st, n)
			for i := 0; i < n; i++ {
				if nz(i) {
					v.At(i).Set(mk(c[i][0], c[i][1], cl(i)))
				}
			}
			return cont{vec: v}
		}
		if constImpl && k == "s" && t.newConstVec != nil {
			idx := []int{}
			vals := []float64{}
			for i := 0; i < n; i++ {
				if c[i][0] != 0 || (cl(i) != 0 && cl(i) != 4) {
					idx = append(idx, i)
					vals = append(vals, cv(c[i][0], cl(i)))
				}
			}
			return cont{cvec: t.newConstVec(idx, vals, n)}
		}
		v := NullSparseVector(t.st, n)
		for _, p := range st {
			s := v.At(p - 1) // creates the entry: an explicitly stored zero unless set below
			if nz(p - 1) {
				s.Set(mk(c[p-1][0], c[p-1][1], cl(p-1)))
			}
		}
		return cont{vec: v}
	}
	var m Matrix
	if isDense(k) {
		m = NullDenseMatrix(t.st, rows, cols)
		for x := 0; x < rows*cols; x++ {
			if nz(x) {
				m.At(x/cols, x%cols).Set(mk(c[x][0], c[x][1], cl(x)))
			}
		}
	} else {
		m = NullSparseMatrix(t.st, rows, cols)
		for _, p := range st {
			x := p - 1
			s := m.At(x/cols, x%cols)
			if nz(x) {
				s.Set(mk(c[x][0], c[x][1], cl(x)))
			}
		}
	}
	return cont{mat: m}
}

// ---- projection of real objects to the abstract content --------------------

type obsElem struct {
	V float64 `json:"v"`
	D float64 `json:"d"`
}

func (o obsElem) MarshalJSON() ([]byte, error) {
	return []byte(fmt.Sprintf("[%q,%q]", fmtF(o.V), fmtF(o.D))), nil
}

func fmtF(x float64) string { return fmt.Sprintf("%v", x) }

func projScalar(s ConstScalar) obsElem {
	o := obsElem{V: s.GetFloat64()}
	if s.GetOrder() >= 1 && s.GetN() >= 1 {
		o.D = s.GetDerivative(0)
	}
	return o
}

// accessorsAgree: every typed accessor of the container delivers what the
// element itself (ConstAt) delivers through the getter of the same type.
func accessorsAgree(s ConstScalar, i8 int8, i16 int16, i32 int32, i64 int64, in int, f32 float32, f64 float64) bool {
	sf := func(x, y float64) bool { return x == y || (x != x && y != y) }
	return i8 == s.GetInt8() && i16 == s.GetInt16() && i32 == s.GetInt32() && i64 == s.GetInt64() && in == s.GetInt() &&
		sf(float64(f32), float64(s.GetFloat32())) && sf(f64, s.GetFloat64())
}

func project(c cont) []obsElem {
	poison := obsElem{V: math.NaN(), D: -12345} // accessors disagree: cannot equal any expectation
	if v := c.constVec(); v != nil {
		r := make([]obsElem, v.Dim())
		for i := range r {
			s := v.ConstAt(i)
			r[i] = projScalar(s)
			if !accessorsAgree(s, v.Int8At(i), v.Int16At(i), v.Int32At(i), v.Int64At(i), v.IntAt(i), v.Float32At(i), v.Float64At(i)) {
				r[i] = poison
			}
		}
		return r
	}
	rows, cols := c.mat.Dims()
	r := make([]obsElem, rows*cols)
	for i := 0; i < rows; i++ {
		for j := 0; j < cols; j++ {
			s := c.mat.ConstAt(i, j)
			r[i*cols+j] = projScalar(s)
			if !accessorsAgree(s, c.mat.Int8At(i, j), c.mat.Int16At(i, j), c.mat.Int32At(i, j), c.mat.Int64At(i, j), c.mat.IntAt(i, j),
				c.mat.Float32At(i, j), c.mat.Float64At(i, j)) {
				r[i*cols+j] = poison
			}
		}
	}
	return r
}

// elemOK compares one observed element with the triple the specification demands.
// what: "" ok, "value", "deriv"
func elemOK(t *elemType, e [3]int, o obsElem) string { return elemOKs(t, e, o, 0) }

// elemOKs: shift = binary exponent applied to a demanded quotient (class 6)
func elemOKs(t *elemType, e [3]int, o obsElem, shift int) string {
	switch e[2] {
	case 6: // the quotient e[0]/e[1], rounded ONCE in the element type (integer types: truncated)
		var want float64
		switch {
		case t.class == "int":
			want = float64(e[0] / e[1])
		case t.bits32:
			want = float64(float32(e[0]) / float32(e[1]))
		default:
			want = float64(e[0]) / float64(e[1])
		}
		if o.V != math.Ldexp(want, shift) {
			return "value"
		}
		return ""
	case 5:
		return "" // unconstrained by IEEE arithmetic alone
	case 4:
		if o.V != 0 {
			return "value"
		}
		return ""
	case 1:
		if !math.IsInf(o.V, 1) {
			return "value"
		}
		return ""
	case 2:
		if !math.IsInf(o.V, -1) {
			return "value"
		}
		return ""
	case 3:
		if !math.IsNaN(o.V) {
			return "value"
		}
		return ""
	}
	if o.V != float64(e[0]) {
		return "value"
	}
	if t.class == "real" && o.D != float64(e[1]) {
		return "deriv"
	}
	return ""
}

func hasSpecial(c [][3]int) bool {
	for _, e := range c {
		if e[2] >= 1 && e[2] <= 3 {
			return true
		}
	}
	return false
}

// compareContent returns "" or the failure class and the first failing index.
func compareContent(t *elemType, exp [][3]int, obs []obsElem, intDivByZero bool) (string, int) {
	return compareContentS(t, exp, obs, intDivByZero, 0)
}

func compareContentS(t *elemType, exp [][3]int, obs []obsElem, intDivByZero bool, shift int) (string, int) {
	if len(exp) != len(obs) {
		return "shape", -1
	}
	for i := range exp {
		if intDivByZero && exp[i][2] >= 1 && exp[i][2] <= 3 {
			continue // integer element type, division by zero that did not panic: unconstrained
		}
		if w := elemOKs(t, exp[i], obs[i], shift); w != "" {
			return w, i
		}
	}
	return "", -1
}

func sortedKeys(m map[string][]int) []string {
	r := make([]string, 0, len(m))
	for k := range m {
		r = append(r, k)
	}
	sort.Strings(r)
	return r
}

// fits: the element type holds every finite value of the record exactly
// (operands, prior content, demanded content) and the record's binary scales.
func fits(t *elemType, rc *rec) bool {
	lim := math.Inf(1)
	switch {
	case t.name == "Int8":
		lim = 127
	case t.name == "Int16":
		lim = 32767
	case t.bits32:
		lim = 1 << 24
	}
	scaled := rc.Scale != 0 || rc.Ascale != 0 || rc.Bscale != 0
	if scaled && t.class == "int" {
		return false // fractions exist in the floating point and magic element types only
	}
	for _, sc := range []int{rc.Scale, rc.Ascale, rc.Bscale} {
		if t.bits32 && (sc > 100 || sc < -100) {
			return false
		}
	}
	if math.IsInf(lim, 1) {
		return true
	}
	for _, cc := range [][][2]int{rc.R.C, rc.A.C, rc.B.C} {
		for _, e := range cc {
			if math.Abs(float64(e[0])) > lim {
				return false
			}
		}
	}
	if rc.Exp != nil {
		for _, e := range rc.Exp.C {
			if e[2] == 0 && math.Abs(float64(e[0])) > lim {
				return false
			}
		}
	}
	return true
}
