package main

func record(args []string) {}
func walk(args []string)   {}
