package main

import (
	"math"
	"math/rand"
	"reflect"
	"strconv"
	"strings"

	. "github.com/pbenner/autodiff"
	"verifharness/vh"
)

// event of the recorded trace: every field is present in every event and all
// values are integers or strings (see spec/ContainersTrace.tla)
type event struct {
	E    string `json:"e"`
	Op   string `json:"op"`
	R    int    `json:"r"`
	A    int    `json:"a"`
	B    int    `json:"b"`
	S    int    `json:"s"`
	Rows int    `json:"rows"`
	Cols int    `json:"cols"`
	C    []int  `json:"c"`
	Post []int  `json:"post"`
	Ret  int    `json:"ret"`
	K    string `json:"k"`   // info: storage kinds receiver/a/b
	T    string `json:"t"`   // info: element type
	Via  string `json:"via"` // info: "generic" or "concrete"
}

type pobj struct {
	rows, cols int
	dense      bool
	c          cont
}

const bound = 100 // magnitudes stay inside int8 and TLC's integers

func (p *pobj) vals() []float64 {
	o := project(p.c)
	r := make([]float64, len(o))
	for i := range o {
		r[i] = o[i].V
	}
	return r
}

func ints(v []float64) []int {
	r := make([]int, len(v))
	for i, x := range v {
		if x != math.Trunc(x) || math.Abs(x) > 1e6 || x != x {
			r[i] = 999999 // not an integer: no specification state can match
		} else {
			r[i] = int(x)
		}
	}
	return r
}

func maxAbs(v []float64) float64 {
	m := 0.0
	for _, x := range v {
		if a := math.Abs(x); a > m {
			m = a
		}
	}
	return m
}

func kindOf(p *pobj) string {
	if p == nil {
		return "-"
	}
	if p.dense {
		return "d"
	}
	return "s"
}

// record writes ntraces traces per element type of nops operations each.
func record(args []string) {
	if len(args) < 3 {
		vh.Fatal("usage: containers record trace nops ntraces [concrete]")
	}
	nops, _ := strconv.Atoi(args[1])
	ntr, _ := strconv.Atoi(args[2])
	useConcrete := len(args) > 3 && args[3] == "concrete"
	seed := int64(vh.EnvInt("VERIF_SEED", 1))
	out := vh.NewOut(args[0])
	defer out.Close()
	for tr := 0; tr < ntr; tr++ {
		for ti, t := range elemTypes {
			rng := rand.New(rand.NewSource(seed*1000003 + int64(tr)*97 + int64(ti)))
			recordOne(out, rng, t, nops, useConcrete)
		}
	}
}

func recordOne(out *vh.Out, rng *rand.Rand, t *elemType, nops int, useConcrete bool) {
	n := 1 + rng.Intn(8)
	m := 1 + rng.Intn(4)
	out.Put(event{E: "reset", C: []int{}, Post: []int{}, T: t.name})
	// pool layout: id -> shape, storage
	type shape struct {
		rows, cols int
		dense      bool
	}
	shapes := []shape{
		{n, -1, true}, {n, -1, true}, {n, -1, true}, {n, -1, false}, {n, -1, false}, {n, -1, false},
		{m, -1, true}, {m, -1, false},
		{n, m, true}, {n, m, false}, {n, m, true}, {n, m, false},
		{m, n, true}, {m, n, false},
		{n, n, true}, {n, n, false},
	}
	pool := make([]*pobj, len(shapes)+1)
	fresh := func(id int) {
		sh := shapes[id-1]
		cells := sh.rows
		if sh.cols >= 0 {
			cells = sh.rows * sh.cols
		}
		c := make([][2]int, cells)
		vals := make([]int, cells)
		st := []int{}
		for i := range c {
			switch x := rng.Intn(10); {
			case x < 4:
				c[i] = [2]int{0, 0}
				if rng.Intn(3) == 0 {
					st = append(st, i+1) // an explicitly stored zero
				}
			default:
				v := rng.Intn(3) + 1
				if rng.Intn(2) == 0 {
					v = -v
				}
				c[i] = [2]int{v, 0}
				st = append(st, i+1)
			}
			vals[i] = c[i][0]
		}
		k := "s"
		if sh.dense {
			k = "d"
		}
		p := &pobj{rows: sh.rows, cols: sh.cols, dense: sh.dense, c: t.build(k, sh.rows, sh.cols, c, st, false)}
		pool[id] = p
		out.Put(event{E: "new", R: id, Rows: sh.rows, Cols: sh.cols, C: vals, Post: ints(p.vals()), K: k, T: t.name})
	}
	for id := 1; id <= len(shapes); id++ {
		fresh(id)
	}
	pick := func(ok func(p *pobj) bool, not ...int) int {
		for try := 0; try < 40; try++ {
			id := 1 + rng.Intn(len(shapes))
			skip := false
			for _, x := range not {
				if x == id {
					skip = true
				}
			}
			if !skip && ok(pool[id]) {
				return id
			}
		}
		return 0
	}
	vecOf := func(k int) func(p *pobj) bool { return func(p *pobj) bool { return p.cols < 0 && p.rows == k } }
	matOf := func(r, c int) func(p *pobj) bool {
		return func(p *pobj) bool { return p.cols >= 0 && p.rows == r && p.cols == c }
	}
	anyObj := func(p *pobj) bool { return true }
	ops := []string{"VaddV", "VsubV", "VmulV", "VdivV", "VaddS", "VsubS", "VmulS", "VdivS", "MdotV", "VdotM",
		"MaddM", "MsubM", "MmulM", "MdivM", "MaddS", "MsubS", "MmulS", "MdivS", "MdotM", "Outer",
		"Set", "Reset", "SetIdentity", "Equals", "VdotV"}
	done := 0
	for attempts := 0; done < nops && attempts < 50*nops; attempts++ {
		op := ops[rng.Intn(len(ops))]
		var r, a, b int
		s := rng.Intn(5) - 2
		switch op {
		case "VaddV", "VsubV", "VmulV", "VdivV":
			r = pick(func(p *pobj) bool { return p.cols < 0 })
			if r != 0 {
				a = pick(vecOf(pool[r].rows), r)
				b = pick(vecOf(pool[r].rows), r)
			}
		case "MaddM", "MsubM", "MmulM", "MdivM":
			r = pick(func(p *pobj) bool { return p.cols >= 0 })
			if r != 0 {
				a = pick(matOf(pool[r].rows, pool[r].cols), r)
				b = pick(matOf(pool[r].rows, pool[r].cols), r)
			}
		case "VaddS", "VsubS", "VmulS", "VdivS":
			r = pick(func(p *pobj) bool { return p.cols < 0 })
			if r != 0 {
				a = pick(vecOf(pool[r].rows), r)
			}
			b = -1
		case "MaddS", "MsubS", "MmulS", "MdivS":
			r = pick(func(p *pobj) bool { return p.cols >= 0 })
			if r != 0 {
				a = pick(matOf(pool[r].rows, pool[r].cols), r)
			}
			b = -1
		case "Set", "Equals":
			r = pick(anyObj)
			if r != 0 {
				if pool[r].cols < 0 {
					a = pick(vecOf(pool[r].rows), r)
				} else {
					a = pick(matOf(pool[r].rows, pool[r].cols), r)
				}
			}
			b = -1
		case "Reset":
			r = pick(anyObj)
			a, b = -1, -1
		case "SetIdentity":
			r = pick(func(p *pobj) bool { return p.cols >= 0 })
			a, b = -1, -1
		case "MdotV":
			a = pick(func(p *pobj) bool { return p.cols >= 0 })
			if a != 0 {
				r = pick(vecOf(pool[a].rows))
				b = pick(vecOf(pool[a].cols), r)
			}
		case "VdotM":
			b = pick(func(p *pobj) bool { return p.cols >= 0 })
			if b != 0 {
				r = pick(vecOf(pool[b].cols))
				a = pick(vecOf(pool[b].rows), r)
			}
		case "MdotM":
			a = pick(func(p *pobj) bool { return p.cols >= 0 })
			if a != 0 {
				b = pick(func(p *pobj) bool { return p.cols >= 0 && p.rows == pool[a].cols }, a)
				if b != 0 {
					r = pick(matOf(pool[a].rows, pool[b].cols), a, b)
				}
			}
		case "Outer":
			r = pick(func(p *pobj) bool { return p.cols >= 0 })
			if r != 0 {
				a = pick(vecOf(pool[r].rows))
				b = pick(vecOf(pool[r].cols))
			}
		case "VdotV":
			a = pick(func(p *pobj) bool { return p.cols < 0 })
			if a != 0 {
				b = pick(vecOf(pool[a].rows))
			}
			r = -1
		}
		if r == 0 || a == 0 || b == 0 {
			continue
		}
		var pr, pa, pb *pobj
		if r > 0 {
			pr = pool[r]
		}
		if a > 0 {
			pa = pool[a]
		}
		if b > 0 {
			pb = pool[b]
		}
		// admissibility by inspection of the OPERANDS: results stay small integers
		var av, bv []float64
		ma, mb := 0.0, 0.0
		if pa != nil {
			av = pa.vals()
			ma = maxAbs(av)
		}
		if pb != nil {
			bv = pb.vals()
			mb = maxAbs(bv)
		}
		sa := math.Abs(float64(s))
		okOp := true
		switch op {
		case "VaddV", "VsubV", "MaddM", "MsubM":
			okOp = ma+mb <= bound
		case "VmulV", "MmulM", "Outer":
			okOp = ma*mb <= bound
		case "VdivV", "MdivM":
			for i := range av {
				if bv[i] == 0 || math.Mod(av[i], bv[i]) != 0 {
					okOp = false
				}
			}
		case "VaddS", "VsubS", "MaddS", "MsubS":
			okOp = ma+sa <= bound
		case "VmulS", "MmulS":
			okOp = ma*sa <= bound
		case "VdivS", "MdivS":
			okOp = s != 0
			for i := range av {
				if s != 0 && math.Mod(av[i], float64(s)) != 0 {
					okOp = false
				}
			}
		case "MdotV", "VdotM", "VdotV":
			if op == "MdotV" {
				okOp = ma*mb*float64(pa.cols) <= bound
			} else if op == "VdotM" {
				okOp = ma*mb*float64(pb.rows) <= bound
			} else {
				okOp = ma*mb*float64(len(av)) <= bound
			}
		case "MdotM":
			okOp = ma*mb*float64(pa.cols) <= bound
		}
		if !okOp {
			// refresh one of the operands (or the receiver) so that sequences keep going
			if rng.Intn(3) == 0 {
				id := a
				if rng.Intn(2) == 0 && b > 0 {
					id = b
				}
				if id > 0 {
					fresh(id)
				}
			}
			continue
		}
		ev := event{E: "op", Op: op, R: max0(r), A: max0(a), B: max0(b), S: s, Rows: 0, Cols: -1, C: []int{}, Post: []int{},
			K: kindOf(pr) + kindOf(pa) + kindOf(pb), T: t.name, Via: "generic"}
		sc := t.elem(s, 0)
		msg := vh.Try(func() {
			concrete := false
			if useConcrete && rng.Intn(2) == 0 && pr != nil {
				concrete = callConcrete(op, pr, pa, pb, sc, &ev)
			}
			if concrete {
				ev.Via = "concrete"
			} else {
				callGeneric(t, op, pr, pa, pb, sc, &ev)
			}
			if pr != nil && op != "Equals" {
				ev.Post = ints(pr.vals())
			}
		})
		if msg != "" {
			ev.E = "panic:" + msg // no action of the specification explains a panic
		}
		out.Put(ev)
		done++
		if msg != "" {
			return
		}
	}
}

func max0(x int) int {
	if x < 0 {
		return 0
	}
	return x
}

func callGeneric(t *elemType, op string, r, a, b *pobj, s Scalar, ev *event) {
	switch op {
	case "VaddV":
		r.c.vec.VaddV(a.c.vec, b.c.vec)
	case "VsubV":
		r.c.vec.VsubV(a.c.vec, b.c.vec)
	case "VmulV":
		r.c.vec.VmulV(a.c.vec, b.c.vec)
	case "VdivV":
		r.c.vec.VdivV(a.c.vec, b.c.vec)
	case "VaddS":
		r.c.vec.VaddS(a.c.vec, s)
	case "VsubS":
		r.c.vec.VsubS(a.c.vec, s)
	case "VmulS":
		r.c.vec.VmulS(a.c.vec, s)
	case "VdivS":
		r.c.vec.VdivS(a.c.vec, s)
	case "MdotV":
		r.c.vec.MdotV(a.c.mat, b.c.vec)
	case "VdotM":
		r.c.vec.VdotM(a.c.vec, b.c.mat)
	case "MaddM":
		r.c.mat.MaddM(a.c.mat, b.c.mat)
	case "MsubM":
		r.c.mat.MsubM(a.c.mat, b.c.mat)
	case "MmulM":
		r.c.mat.MmulM(a.c.mat, b.c.mat)
	case "MdivM":
		r.c.mat.MdivM(a.c.mat, b.c.mat)
	case "MaddS":
		r.c.mat.MaddS(a.c.mat, s)
	case "MsubS":
		r.c.mat.MsubS(a.c.mat, s)
	case "MmulS":
		r.c.mat.MmulS(a.c.mat, s)
	case "MdivS":
		r.c.mat.MdivS(a.c.mat, s)
	case "MdotM":
		r.c.mat.MdotM(a.c.mat, b.c.mat)
	case "Outer":
		r.c.mat.Outer(a.c.vec, b.c.vec)
	case "Set":
		if r.cols < 0 {
			r.c.vec.Set(a.c.vec)
		} else {
			r.c.mat.Set(a.c.mat)
		}
	case "Reset":
		if r.cols < 0 {
			r.c.vec.Reset()
		} else {
			r.c.mat.Reset()
		}
	case "SetIdentity":
		r.c.mat.SetIdentity()
	case "Equals":
		var eq bool
		if r.cols < 0 {
			eq = r.c.vec.Equals(a.c.vec, eps)
		} else {
			eq = r.c.mat.Equals(a.c.mat, eps)
		}
		if eq {
			ev.Ret = 1
		}
	case "VdotV":
		x := NullScalar(t.st)
		x.VdotV(a.c.vec, b.c.vec)
		ev.Ret = ints([]float64{x.GetFloat64()})[0]
	default:
		panic("driver: unknown operation " + op)
	}
}

// callConcrete uses the capital-letter method when it exists for the concrete
// types at hand; reports whether it did.
func callConcrete(op string, r, a, b *pobj, s Scalar, ev *event) bool {
	m := reflect.ValueOf(r.c.obj()).MethodByName(strings.ToUpper(op))
	if !m.IsValid() {
		return false
	}
	var args []interface{}
	switch {
	case op == "Equals":
		args = []interface{}{a.c.obj(), eps}
	case a != nil && b != nil:
		args = []interface{}{a.c.obj(), b.c.obj()}
	case a != nil && strings.HasSuffix(op, "S"):
		args = []interface{}{a.c.obj(), s}
	case a != nil:
		args = []interface{}{a.c.obj()}
	}
	mt := m.Type()
	if mt.NumIn() != len(args) {
		return false
	}
	vals := make([]reflect.Value, len(args))
	for i, x := range args {
		if reflect.TypeOf(x) != mt.In(i) {
			return false
		}
		vals[i] = reflect.ValueOf(x)
	}
	ret := m.Call(vals)
	if op == "Equals" && ret[0].Bool() {
		ev.Ret = 1
	}
	return true
}
