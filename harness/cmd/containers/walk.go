package main

import (
	"encoding/json"
	"fmt"
	"reflect"

	. "github.com/pbenner/autodiff"
	"verifharness/vh"
)

// one finished walk of the mechanism model spec/JointIter.tla
type walkOp struct {
	Kind   string `json:"kind"`
	Val    []int  `json:"val"`
	Stored []int  `json:"stored"` // 0-based positions
}
type visit struct {
	Idx int  `json:"idx"`
	H1  bool `json:"h1"`
	V2  int  `json:"v2"`
	V3  int  `json:"v3"`
}
type walkCase struct {
	Ways     int      `json:"ways"`
	N        int      `json:"n"`
	Ops      []walkOp `json:"ops"`
	Required []int    `json:"required"`
	Allowed  []int    `json:"allowed"`
	Walk     []visit  `json:"walk"`
}

func (t *elemType) buildWalkOp(o walkOp, n int) Vector {
	c := make([][2]int, n)
	for i := range c {
		c[i] = [2]int{o.Val[i], 0}
	}
	st := make([]int, len(o.Stored))
	for i, p := range o.Stored {
		st[i] = p + 1
	}
	k := "s"
	if o.Kind == "dense" {
		k = "d"
	}
	return t.build(k, n, -1, c, st, false).vec
}

// realWalk drives the real generic joint iterator like an element-wise
// operation does (creating the receiver entry where none was delivered).
func realWalk(t *elemType, w *walkCase) (res []visit, msg string) {
	r := t.buildWalkOp(w.Ops[0], w.N)
	a := t.buildWalkOp(w.Ops[1], w.N)
	b := t.buildWalkOp(w.Ops[2], w.N)
	msg = vh.Try(func() {
		consume := func(idx int, s1 Scalar, v2, v3 float64) {
			v1 := 0.0
			if s1 != nil && !reflect.ValueOf(s1).IsZero() {
				v1 = s1.GetFloat64()
			}
			x := 0.0
			if v1+v2+v3 > 0 {
				x = 1
			}
			r.At(idx).SetFloat64(x)
		}
		if w.Ways == 2 {
			n := 0
			for it := r.JointIterator(a); it.Ok(); it.Next() {
				s1, s2 := it.Get()
				h1 := s1 != nil && !(reflect.ValueOf(s1).Kind() == reflect.Ptr && reflect.ValueOf(s1).IsNil())
				res = append(res, visit{Idx: it.Index(), H1: h1, V2: int(s2.GetFloat64())})
				if !h1 {
					s1 = nil
				}
				consume(it.Index(), s1, s2.GetFloat64(), 0)
				if n++; n > 4*w.N+4 {
					panic("joint iterator does not terminate")
				}
			}
			return
		}
		m := reflect.ValueOf(r).MethodByName("JOINT3_ITERATOR")
		if !m.IsValid() {
			panic("driver: no JOINT3_ITERATOR on " + fmt.Sprintf("%T", r))
		}
		cv := reflect.TypeOf((*ConstVector)(nil)).Elem()
		it := m.Call([]reflect.Value{reflect.ValueOf(a).Convert(cv), reflect.ValueOf(b).Convert(cv)})[0]
		n := 0
		for it.MethodByName("Ok").Call(nil)[0].Bool() {
			idx := int(it.MethodByName("Index").Call(nil)[0].Int())
			g := it.MethodByName("Get").Call(nil)
			h1 := !g[0].IsNil()
			var s1 Scalar
			if h1 {
				s1 = g[0].Interface().(Scalar)
				if reflect.ValueOf(s1).Kind() == reflect.Ptr && reflect.ValueOf(s1).IsNil() {
					h1, s1 = false, nil
				}
			}
			v2 := g[1].Interface().(ConstScalar).GetFloat64()
			v3 := g[2].Interface().(ConstScalar).GetFloat64()
			res = append(res, visit{Idx: idx, H1: h1, V2: int(v2), V3: int(v3)})
			consume(idx, s1, v2, v3)
			it.MethodByName("Next").Call(nil)
			if n++; n > 4*w.N+4 {
				panic("joint iterator does not terminate")
			}
		}
	})
	return
}

// walkContractOK evaluates the contract of a walk on TLC's data: ascending,
// required positions visited, only allowed positions, values = contents.
func walkContractOK(w *walkCase, got []visit) string {
	in := func(xs []int, x int) bool {
		for _, y := range xs {
			if y == x {
				return true
			}
		}
		return false
	}
	seen := map[int]bool{}
	for i, v := range got {
		if i > 0 && got[i-1].Idx >= v.Idx {
			return "not ascending"
		}
		if !in(w.Allowed, v.Idx) {
			return "visited a position no operand stores"
		}
		if v.Idx < 0 || v.Idx >= w.N {
			return "position out of range"
		}
		content := func(o walkOp) int {
			if o.Kind == "dense" || in(o.Stored, v.Idx) {
				return o.Val[v.Idx]
			}
			return 0
		}
		if v.V2 != content(w.Ops[1]) || v.V3 != content(w.Ops[2]) {
			return "handed a value that is not the operand's content"
		}
		seen[v.Idx] = true
	}
	for _, k := range w.Required {
		if !seen[k] {
			return "stopped before a non-zero entry"
		}
	}
	return ""
}

func walk(args []string) {
	if len(args) < 2 {
		vh.Fatal("usage: containers walk walks results")
	}
	out := vh.NewOut(args[1])
	defer out.Close()
	nw, ndrift, nmis, nvis := 0, 0, 0, 0
	sigSeen := map[string]int{}
	err := vh.EachLine(args[0], func(line []byte) error {
		var w walkCase
		if e := json.Unmarshal(line, &w); e != nil {
			return fmt.Errorf("bad walk: %v: %.200s", e, line)
		}
		for _, t := range elemTypes {
			nw++
			got, msg := realWalk(t, &w)
			nvis += len(got)
			what := ""
			if msg != "" {
				what = "panic"
			} else {
				same := len(got) == len(w.Walk)
				for i := 0; same && i < len(got); i++ {
					same = got[i] == w.Walk[i]
				}
				if same {
					continue
				}
				if why := walkContractOK(&w, got); why != "" {
					what = why
				} else {
					ndrift++ // differs from the mechanism model, invisible at the contract layer
					continue
				}
			}
			nmis++
			key := what + "/" + t.name
			if sigSeen[key]++; sigSeen[key] <= 2 {
				vh.Mismatch(out, vh.M{"engine": "jointiter", "ways": w.Ways, "what": what, "type": t.name},
					vh.M{"walk_case": json.RawMessage(line), "type": t.name, "observed": got, "panic": msg})
			}
		}
		return nil
	})
	if err != nil {
		vh.Fatal(err)
	}
	vh.Summary(out, vh.M{"walks": nw, "visits": nvis, "drift": ndrift, "mismatches": nmis})
}
