package main

import (
	"encoding/json"
	"fmt"
	"math"
	"reflect"
	"strings"

	. "github.com/pbenner/autodiff"
	"verifharness/vh"
)

// evalTerm interprets a symbolic term printed by TLC (the MEANING of a
// transcendental scalar operation) with Go's math package.
func evalTerm(raw json.RawMessage, x, y float64) (float64, error) {
	var node []json.RawMessage
	if err := json.Unmarshal(raw, &node); err != nil || len(node) == 0 {
		return 0, fmt.Errorf("bad term %s", raw)
	}
	var head string
	if err := json.Unmarshal(node[0], &head); err != nil {
		return 0, fmt.Errorf("bad term head %s", raw)
	}
	arg := func(i int) (float64, error) {
		if i >= len(node) {
			return 0, fmt.Errorf("term %s: missing argument", raw)
		}
		return evalTerm(node[i], x, y)
	}
	switch head {
	case "x":
		return x, nil
	case "y":
		return y, nil
	case "one":
		return 1, nil
	}
	a, err := arg(1)
	if err != nil {
		return 0, err
	}
	switch head {
	case "exp":
		return math.Exp(a), nil
	case "log":
		return math.Log(a), nil
	case "sqrt":
		return math.Sqrt(a), nil
	}
	b, err := arg(2)
	if err != nil {
		return 0, err
	}
	switch head {
	case "add":
		return a + b, nil
	case "sub":
		return a - b, nil
	case "pow":
		return math.Pow(a, b), nil
	}
	return 0, fmt.Errorf("unknown term head %q", head)
}

// full state of a scalar: value, order, N and every derivative / Hessian slot
type scalState struct {
	V     float64
	Order int
	N     int
	G     []float64
	H     []float64
}

func stateOf(s ConstScalar) scalState {
	st := scalState{V: s.GetFloat64(), Order: s.GetOrder(), N: s.GetN()}
	if st.Order >= 1 {
		for i := 0; i < st.N; i++ {
			st.G = append(st.G, s.GetDerivative(i))
		}
	}
	if st.Order >= 2 {
		for i := 0; i < st.N; i++ {
			for j := 0; j < st.N; j++ {
				st.H = append(st.H, s.GetHessian(i, j))
			}
		}
	}
	return st
}

func sameState(a, b scalState) bool {
	if !sameF(a.V, b.V) || a.Order != b.Order || a.N != b.N || len(a.G) != len(b.G) || len(a.H) != len(b.H) {
		return false
	}
	for i := range a.G {
		if !sameF(a.G[i], b.G[i]) {
			return false
		}
	}
	for i := range a.H {
		if !sameF(a.H[i], b.H[i]) {
			return false
		}
	}
	return true
}

func (s scalState) json() vh.M {
	f := func(xs []float64) []string {
		r := make([]string, len(xs))
		for i, x := range xs {
			r[i] = fmtF(x)
		}
		return r
	}
	return vh.M{"v": fmtF(s.V), "order": s.Order, "n": s.N, "grad": f(s.G), "hess": f(s.H)}
}

type scalOut struct {
	panicMsg string
	st       scalState
	b        bool
	i        int
	noPair   bool
}

// scalar operands: for the magic types x and y are the two active variables
// (order 2), so that gradient and Hessian slots are populated.
func scalarOperands(t *elemType, rc *rec) (r, x, y, tmp Scalar) {
	r = NewScalar(t.st, float64(rc.P))
	x = NewScalar(t.st, float64(rc.X))
	y = NewScalar(t.st, float64(rc.Y))
	tmp = NullScalar(t.st)
	if t.class == "real" {
		Variables(2, x.(MagicScalar), y.(MagicScalar))
	}
	if rc.Op == "Sign" || rc.Op == "Equals" || rc.Op == "Greater" || rc.Op == "Smaller" {
		r = x // the receiver is the first operand
	}
	return
}

var unaryOps = map[string]bool{"Neg": true, "Abs": true, "Set": true, "Exp": true, "Log": true, "Log1p": true, "Sqrt": true}

func runScalar(t *elemType, rc *rec, concrete bool) (out scalOut) {
	r, x, y, tmp := scalarOperands(t, rc)
	name := rc.Op
	if concrete {
		name = strings.ToUpper(rc.Op)
	}
	m := reflect.ValueOf(r).MethodByName(name)
	if !m.IsValid() {
		out.noPair = true
		return
	}
	var args []interface{}
	switch {
	case rc.Op == "Sign":
		args = nil
	case rc.Op == "Equals":
		args = []interface{}{y, eps}
	case rc.Op == "Greater" || rc.Op == "Smaller":
		args = []interface{}{y}
	case unaryOps[rc.Op]:
		args = []interface{}{x}
	case rc.Op == "LogAdd" || rc.Op == "LogSub":
		args = []interface{}{x, y, tmp}
	default:
		args = []interface{}{x, y}
	}
	mt := m.Type()
	if mt.NumIn() != len(args) {
		out.noPair = true
		return
	}
	vals := make([]reflect.Value, len(args))
	for i, a := range args {
		if concrete && reflect.TypeOf(a) != mt.In(i) {
			out.noPair = true
			return
		}
		if !reflect.TypeOf(a).AssignableTo(mt.In(i)) {
			out.noPair = true
			return
		}
		vals[i] = reflect.ValueOf(a)
	}
	out.panicMsg = vh.Try(func() {
		ret := m.Call(vals)
		switch rc.Sexp.T {
		case "b":
			out.b = ret[0].Bool()
		case "i":
			out.i = int(ret[0].Int())
		default:
			out.st = stateOf(r)
		}
	})
	return out
}

func scalarCase(rc *rec, line []byte, out *vh.Out, st *stats) {
	n := 0
	pairs := map[string]bool{}
	for _, t := range elemTypes {
		gen := runScalar(t, rc, false)
		conc := runScalar(t, rc, true)
		if gen.noPair || conc.noPair {
			continue
		}
		n++
		pairs[fmt.Sprintf("%s.%s/%s", t.name, rc.Op, strings.ToUpper(rc.Op))] = true
		fail := func(variant, what string, extra vh.M) {
			d := vh.M{"record": json.RawMessage(line), "type": t.name, "variant": variant,
				"generic":  vh.M{"panic": gen.panicMsg, "state": gen.st.json(), "b": gen.b, "i": gen.i},
				"concrete": vh.M{"panic": conc.panicMsg, "state": conc.st.json(), "b": conc.b, "i": conc.i}}
			for k, v := range extra {
				d[k] = v
			}
			report(out, st, vh.M{"engine": "scalars", "variant": variant, "op": rc.Op, "recv": "scalar", "what": what, "type": t.name}, d)
		}
		// integer division by zero: a panic is allowed, but then for both variants
		intDiv := t.class == "int" && rc.Sexp.T == "v" && rc.Sexp.F != 0
		if (gen.panicMsg != "") != (conc.panicMsg != "") {
			fail("generic_vs_concrete", "panic", nil)
			continue
		}
		if gen.panicMsg != "" {
			if !intDiv {
				fail("concrete", "panic", nil)
			}
			continue
		}
		// 1. against the specification
		check := func(variant string, o scalOut) bool {
			switch rc.Sexp.T {
			case "b":
				if o.b != rc.Sexp.B {
					fail(variant, "result", nil)
					return false
				}
			case "i":
				if o.i != rc.Sexp.V {
					fail(variant, "result", nil)
					return false
				}
			case "v":
				if intDiv {
					return true
				}
				if w := elemOK(&elemType{class: "plain"}, [3]int{rc.Sexp.V, 0, rc.Sexp.F}, obsElem{V: o.st.V}); w != "" {
					fail(variant, "value", nil)
					return false
				}
			case "term":
				if t.class == "int" {
					return true // the meaning of exp/log/... on integer types is left to C02
				}
				want, err := evalTerm(rc.Sexp.Term, float64(rc.X), float64(rc.Y))
				if err != nil {
					vh.Fatal(err)
				}
				tol := 1e-12
				if t.bits32 {
					tol = 1e-5
				}
				if math.IsNaN(want) || math.IsInf(want, 0) {
					return true // undefined point: discarded
				}
				if !(math.Abs(o.st.V-want) <= tol*(1+math.Abs(want))) { // NaN observed: fails
					fail(variant, "value", vh.M{"term_value": fmtF(want)})
					return false
				}
			}
			return true
		}
		okc := check("concrete", conc)
		// 2. generic and concrete against each other: every slot identical
		if okc {
			same := gen.b == conc.b && gen.i == conc.i && sameState(gen.st, conc.st)
			if !same {
				fail("generic_vs_concrete", "differ", nil)
			}
		}
	}
	st.mu.Lock()
	st.records++
	st.scalar += n
	st.byOp["S:"+rc.Op] += n
	for p := range pairs {
		st.pairs[p] = true
	}
	st.mu.Unlock()
}
