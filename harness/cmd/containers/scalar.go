package main

import (
	"encoding/json"
	"fmt"
	"math"
	"reflect"
	"strconv"
	"strings"

	. "github.com/pbenner/autodiff"
	"verifharness/vh"
)

// evalTerm interprets a symbolic term printed by TLC (the MEANING of a
// transcendental scalar operation) with Go's math package.
func evalTerm(raw json.RawMessage, x, y float64) (float64, error) {
	var node []json.RawMessage
	if err := json.Unmarshal(raw, &node); err != nil || len(node) == 0 {
		return 0, fmt.Errorf("bad term %s", raw)
	}
	var head string
	if err := json.Unmarshal(node[0], &head); err != nil {
		return 0, fmt.Errorf("bad term head %s", raw)
	}
	arg := func(i int) (float64, error) {
		if i >= len(node) {
			return 0, fmt.Errorf("term %s: missing argument", raw)
		}
		return evalTerm(node[i], x, y)
	}
	switch head {
	case "x":
		return x, nil
	case "y":
		return y, nil
	case "one":
		return 1, nil
	}
	a, err := arg(1)
	if err != nil {
		return 0, err
	}
	switch head {
	case "exp":
		return math.Exp(a), nil
	case "log":
		return math.Log(a), nil
	case "sqrt":
		return math.Sqrt(a), nil
	}
	b, err := arg(2)
	if err != nil {
		return 0, err
	}
	switch head {
	case "add":
		return a + b, nil
	case "sub":
		return a - b, nil
	case "pow":
		return math.Pow(a, b), nil
	}
	return 0, fmt.Errorf("unknown term head %q", head)
}

// full state of a scalar: value, order, N and every derivative / Hessian slot
type scalState struct {
	I     int64 // exact value of the integer types
	V     float64
	Order int
	N     int
	G     []float64
	H     []float64
}

func stateOf(s ConstScalar) scalState {
	st := scalState{I: s.GetInt64(), V: s.GetFloat64(), Order: s.GetOrder(), N: s.GetN()}
	if st.Order >= 1 {
		for i := 0; i < st.N; i++ {
			st.G = append(st.G, s.GetDerivative(i))
		}
	}
	if st.Order >= 2 {
		for i := 0; i < st.N; i++ {
			for j := 0; j < st.N; j++ {
				st.H = append(st.H, s.GetHessian(i, j))
			}
		}
	}
	return st
}

func sameState(a, b scalState) bool {
	if !sameF(a.V, b.V) || a.Order != b.Order || a.N != b.N || len(a.G) != len(b.G) || len(a.H) != len(b.H) {
		return false
	}
	for i := range a.G {
		if !sameF(a.G[i], b.G[i]) {
			return false
		}
	}
	for i := range a.H {
		if !sameF(a.H[i], b.H[i]) {
			return false
		}
	}
	return true
}

func (s scalState) json() vh.M {
	f := func(xs []float64) []string {
		r := make([]string, len(xs))
		for i, x := range xs {
			r[i] = fmtF(x)
		}
		return r
	}
	return vh.M{"v": fmtF(s.V), "int64": fmt.Sprint(s.I), "order": s.Order, "n": s.N, "grad": f(s.G), "hess": f(s.H)}
}

type scalOut struct {
	panicMsg string
	st       scalState
	b        bool
	i        int
	noPair   bool
}

// resolve a symbolic integer against the bounds of the element type
func (t *elemType) resolve(s *symT) int64 {
	bits := map[string]uint{"Int8": 8, "Int16": 16, "Int32": 32, "Int64": 64, "Int": uint(strconv.IntSize)}[t.name]
	switch s.B {
	case "min":
		return -(int64(1) << (bits - 1)) + int64(s.O)
	case "max":
		return (int64(1)<<(bits-1) - 1) + int64(s.O)
	}
	return int64(s.O)
}

// applies reports whether a scalar record is instantiated for the element type
func scalarApplies(t *elemType, rc *rec) bool {
	switch rc.Sp {
	case "fs":
		if t.class == "int" {
			return false
		}
		if t.class == "float" { // derivative orders only matter to the magic types
			return rc.Xo == nil || *rc.Xo == 2
		}
	case "ib":
		return t.class == "int"
	}
	return true
}

// scalar operands: for the magic types x and y are active variables (order 2
// unless the record prescribes the orders; order 0 = a constant), so that
// gradient and Hessian slots are populated.
func scalarOperands(t *elemType, rc *rec) (r, x, y, tmp Scalar) {
	tmp = NullScalar(t.st)
	switch rc.Sp {
	case "fs":
		r = NewScalar(t.st, float64(rc.P))
		x = NewScalar(t.st, classValue(rc.Xx[0], rc.Xx[2]))
		y = NewScalar(t.st, classValue(rc.Yy[0], rc.Yy[2]))
	case "ib":
		r = NewScalar(t.st, float64(rc.P))
		x = NullScalar(t.st)
		x.SetInt64(t.resolve(rc.Xb))
		y = NullScalar(t.st)
		y.SetInt64(t.resolve(rc.Yb))
	default:
		r = NewScalar(t.st, float64(rc.P))
		x = NewScalar(t.st, float64(rc.X))
		y = NewScalar(t.st, float64(rc.Y))
	}
	if t.class == "real" {
		xo, yo := 2, 2
		if rc.Xo != nil && rc.Yo != nil {
			xo, yo = *rc.Xo, *rc.Yo
		}
		n := 0
		if xo > 0 {
			n++
		}
		if yo > 0 {
			n++
		}
		i := 0
		if xo > 0 {
			x.(MagicScalar).SetVariable(i, n, xo)
			i++
		}
		if yo > 0 {
			y.(MagicScalar).SetVariable(i, n, yo)
		}
	}
	if rc.Op == "Sign" || rc.Op == "Equals" || rc.Op == "Greater" || rc.Op == "Smaller" {
		r = x // the receiver is the first operand
	}
	switch rc.Alias { // in-place update: the receiver IS an operand
	case "ra":
		r = x
	case "rb":
		r = y
	case "rab":
		if t.class == "real" {
			x.(MagicScalar).SetVariable(0, 1, 2)
		}
		r, y = x, x
	}
	return
}

var unaryOps = map[string]bool{"Neg": true, "Abs": true, "Set": true, "Exp": true, "Log": true, "Log1p": true, "Sqrt": true}

func runScalar(t *elemType, rc *rec, concrete bool) (out scalOut) {
	r, x, y, tmp := scalarOperands(t, rc)
	name := rc.Op
	if concrete {
		name = strings.ToUpper(rc.Op)
	}
	m := reflect.ValueOf(r).MethodByName(name)
	if !m.IsValid() {
		out.noPair = true
		return
	}
	var args []interface{}
	switch {
	case rc.Op == "Sign":
		args = nil
	case rc.Op == "Equals":
		args = []interface{}{y, eps}
	case rc.Op == "Greater" || rc.Op == "Smaller":
		args = []interface{}{y}
	case unaryOps[rc.Op]:
		args = []interface{}{x}
	case rc.Op == "LogAdd" || rc.Op == "LogSub":
		args = []interface{}{x, y, tmp}
	default:
		args = []interface{}{x, y}
	}
	mt := m.Type()
	if mt.NumIn() != len(args) {
		out.noPair = true
		return
	}
	vals := make([]reflect.Value, len(args))
	for i, a := range args {
		if concrete && reflect.TypeOf(a) != mt.In(i) {
			out.noPair = true
			return
		}
		if !reflect.TypeOf(a).AssignableTo(mt.In(i)) {
			out.noPair = true
			return
		}
		vals[i] = reflect.ValueOf(a)
	}
	out.panicMsg = vh.Try(func() {
		ret := m.Call(vals)
		switch rc.Sexp.T {
		case "b":
			out.b = ret[0].Bool()
		case "i":
			out.i = int(ret[0].Int())
		default:
			out.st = stateOf(r)
		}
	})
	return out
}

func scalarCase(rc *rec, line []byte, out *vh.Out, st *stats) {
	n := 0
	pairs := map[string]bool{}
	for _, t := range elemTypes {
		if !scalarApplies(t, rc) {
			continue
		}
		gen := runScalar(t, rc, false)
		conc := runScalar(t, rc, true)
		if gen.noPair || conc.noPair {
			continue
		}
		n++
		pairs[fmt.Sprintf("%s.%s/%s", t.name, rc.Op, strings.ToUpper(rc.Op))] = true
		var fail func(variant, what string, extra vh.M)
		fail = func(variant, what string, extra vh.M) {
			d := vh.M{"record": json.RawMessage(line), "type": t.name, "variant": variant,
				"generic":  vh.M{"panic": gen.panicMsg, "state": gen.st.json(), "b": gen.b, "i": gen.i},
				"concrete": vh.M{"panic": conc.panicMsg, "state": conc.st.json(), "b": conc.b, "i": conc.i}}
			for k, v := range extra {
				d[k] = v
			}
			report(out, st, vh.M{"engine": "scalars", "variant": variant, "op": rc.Op, "recv": "scalar", "what": what, "type": t.name}, d)
		}
		// integer division by zero: a panic is allowed, but then for both variants
		intDiv := t.class == "int" && rc.Sexp.T == "v" && rc.Sexp.F != 0
		if (gen.panicMsg != "") != (conc.panicMsg != "") {
			fail("generic_vs_concrete", "panic", nil)
			continue
		}
		if gen.panicMsg != "" {
			if !intDiv {
				fail("concrete", "panic", nil)
			}
			continue
		}
		// 1. against the specification
		check := func(variant string, o scalOut) bool {
			switch rc.Sexp.T {
			case "b":
				if o.b != rc.Sexp.B {
					fail(variant, "result", nil)
					return false
				}
			case "i":
				if o.i != rc.Sexp.V {
					fail(variant, "result", nil)
					return false
				}
			case "v", "x":
				if intDiv {
					return true
				}
				if w := elemOK(&elemType{class: "plain"}, [3]int{rc.Sexp.V, 0, rc.Sexp.F}, obsElem{V: o.st.V}); w != "" {
					fail(variant, "value", nil)
					return false
				}
			case "sym": // integer bounds: exact two's complement result
				if want := t.resolve(rc.Sexp.Sym); o.st.I != want {
					fail(variant, "value", vh.M{"want_int64": fmt.Sprint(want)})
					return false
				}
			case "any":
			case "term":
				if t.class == "int" {
					return true // the meaning of exp/log/... on integer types is left to C02
				}
				xv, yv := float64(rc.X), float64(rc.Y)
				if rc.Sp == "fs" {
					xv, yv = classValue(rc.Xx[0], rc.Xx[2]), classValue(rc.Yy[0], rc.Yy[2])
				}
				want, err := evalTerm(rc.Sexp.Term, xv, yv)
				if err != nil {
					vh.Fatal(err)
				}
				tol := 1e-12
				if t.bits32 {
					tol = 1e-5
				}
				switch {
				case math.IsNaN(want):
					if !math.IsNaN(o.st.V) {
						fail(variant, "value", vh.M{"term_value": fmtF(want)})
						return false
					}
				case math.IsInf(want, 0):
					if o.st.V != want {
						fail(variant, "value", vh.M{"term_value": fmtF(want)})
						return false
					}
				case !(math.Abs(o.st.V-want) <= tol*(1+math.Abs(want))): // NaN observed: fails
					fail(variant, "value", vh.M{"term_value": fmtF(want)})
					return false
				}
			}
			return true
		}
		same := gen.b == conc.b && gen.i == conc.i && sameState(gen.st, conc.st) && (t.class != "int" || gen.st.I == conc.st.I)
		if rc.Sp != "" {
			// special operands: the two variants must agree in class and in every slot (NaN = NaN);
			// a class both of them miss is information for C02 (see bothDeviate)
			if !same {
				what := "differ_special"
				if rc.Op == "Sqrt" && rc.Xx[2] == 2 && math.IsInf(gen.st.V, 1) && math.IsNaN(conc.st.V) {
					what = "differ_special_sqrt_neg_inf" // generic Sqrt = Pow(x, 0.5): +Inf for -Inf
				}
				fail("generic_vs_concrete", what, nil)
				continue
			}
			quiet := fail
			fail = func(variant, what string, extra vh.M) {
				bothDeviate(st, vh.M{"engine": "scalars", "op": rc.Op, "what": what, "class": t.class},
					vh.M{"type": t.name, "record": json.RawMessage(line), "both": vh.M{"state": conc.st.json(), "b": conc.b, "i": conc.i}, "extra": extra})
			}
			check("concrete", conc)
			fail = quiet
			continue
		}
		okc := check("concrete", conc)
		// 2. generic and concrete against each other: every slot identical
		if okc && !same {
			fail("generic_vs_concrete", "differ", nil)
		}
	}
	st.mu.Lock()
	st.records++
	st.scalar += n
	st.byOp["S:"+rc.Op] += n
	if rc.Alias != "" && rc.Alias != "-" {
		st.byOp["S:alias:"+rc.Alias] += n
	}
	for p := range pairs {
		st.pairs[p] = true
	}
	st.mu.Unlock()
}
