package main

import (
	"encoding/json"
	"fmt"
	"math"
	"os"
	"reflect"
	"runtime"
	"sort"
	"strings"
	"sync"
	"time"

	. "github.com/pbenner/autodiff"
	"verifharness/vh"
)

const eps = 1e-8 // below the spacing (1) of the value domain

// epsOf: the epsilon of an Equals case (records with an epsilon dimension give it in units of 2^scale)
func epsOf(rc *rec) float64 {
	if rc.Epsu != 0 {
		return math.Ldexp(float64(rc.Epsu), rc.Scale)
	}
	return eps
}

// inst is one instantiation of a record: element type x operand representations
type inst struct {
	t       *elemType
	ak, bk  string
	constOp bool // sparse "s" vector operands are SparseConst* vectors
}

type outcome struct {
	typeErr  string // constructors/converters: wrong element type, dynamic type or wrap-around width
	panicMsg string
	content  []obsElem // projected result container (receiver / new object)
	boolRet  bool
	scalRet  obsElem
	noPair   bool // (concrete only) no capital-letter method with concrete-typed arguments
}

type operands struct {
	r, a, b cont
	s       Scalar
}

func (in inst) build(rc *rec) operands {
	var o operands
	t := in.t
	ascale, bscale := rc.Scale, 0
	if rc.Kind == "ratio" {
		ascale, bscale = rc.Ascale, rc.Bscale
	}
	if rc.Kind == "view" {
		// both operands are views of ONE base matrix (rc.A)
		base := t.buildS("d", rc.A.Rows, rc.A.Cols, rc.A.C, nil, rc.A.Reps["d"], false, 0).mat
		v1, v2 := applyView(base, rc.V1), applyView(base, rc.V2)
		if rc.Op == "Equals" {
			o.r, o.a = cont{mat: v1}, cont{mat: v2}
		} else {
			o.r = t.build(rc.R.K, rc.R.Rows, rc.R.Cols, rc.R.C, rc.R.St, false)
			o.a, o.b = cont{mat: v1}, cont{mat: v2}
		}
		o.s = t.elem(0, 0)
		return o
	}
	if rc.R.K != "-" && rc.Op != "As" && rc.Op != "New" {
		constRecv := in.constOp && rc.Op == "Equals"
		o.r = t.buildS(rc.R.K, rc.R.Rows, rc.R.Cols, rc.R.C, nil, rc.R.St, constRecv, rc.Scale)
	}
	if in.ak != "-" {
		o.a = t.buildS(in.ak, rc.A.Rows, rc.A.Cols, rc.A.C, rc.A.F, rc.A.Reps[in.ak], in.constOp, ascale)
	}
	if in.bk != "-" {
		o.b = t.buildS(in.bk, rc.B.Rows, rc.B.Cols, rc.B.C, rc.B.F, rc.B.Reps[in.bk], in.constOp, bscale)
	}
	if bscale != 0 {
		o.s = NewScalar(t.st, math.Ldexp(float64(rc.S[0]), bscale))
	} else {
		o.s = t.elemX(rc.S[0], rc.S[1], rc.Sf)
	}
	return o
}

func isVecCase(rc *rec) bool { return rc.Dims[1] < 0 }

// runGeneric calls the operation through the generic interface method.
func runGeneric(in inst, rc *rec, o operands) (out outcome) {
	t := in.t
	res := o.r
	out.panicMsg = vh.Try(func() {
		switch rc.Op {
		case "VaddV":
			o.r.vec.VaddV(o.a.constVec(), o.b.constVec())
		case "VsubV":
			o.r.vec.VsubV(o.a.constVec(), o.b.constVec())
		case "VmulV":
			o.r.vec.VmulV(o.a.constVec(), o.b.constVec())
		case "VdivV":
			o.r.vec.VdivV(o.a.constVec(), o.b.constVec())
		case "VaddS":
			o.r.vec.VaddS(o.a.constVec(), o.s)
		case "VsubS":
			o.r.vec.VsubS(o.a.constVec(), o.s)
		case "VmulS":
			o.r.vec.VmulS(o.a.constVec(), o.s)
		case "VdivS":
			o.r.vec.VdivS(o.a.constVec(), o.s)
		case "MdotV":
			o.r.vec.MdotV(o.a.mat, o.b.constVec())
		case "VdotM":
			o.r.vec.VdotM(o.a.constVec(), o.b.mat)
		case "MaddM":
			o.r.mat.MaddM(o.a.mat, o.b.mat)
		case "MsubM":
			o.r.mat.MsubM(o.a.mat, o.b.mat)
		case "MmulM":
			o.r.mat.MmulM(o.a.mat, o.b.mat)
		case "MdivM":
			o.r.mat.MdivM(o.a.mat, o.b.mat)
		case "MaddS":
			o.r.mat.MaddS(o.a.mat, o.s)
		case "MsubS":
			o.r.mat.MsubS(o.a.mat, o.s)
		case "MmulS":
			o.r.mat.MmulS(o.a.mat, o.s)
		case "MdivS":
			o.r.mat.MdivS(o.a.mat, o.s)
		case "MdotM":
			o.r.mat.MdotM(o.a.mat, o.b.mat)
		case "Outer":
			o.r.mat.Outer(o.a.constVec(), o.b.constVec())
		case "Set":
			if isVecCase(rc) {
				o.r.vec.Set(o.a.constVec())
			} else {
				o.r.mat.Set(o.a.mat)
			}
		case "Reset":
			if isVecCase(rc) {
				o.r.vec.Reset()
			} else {
				o.r.mat.Reset()
			}
		case "SetIdentity":
			o.r.mat.SetIdentity()
		case "Equals":
			if isVecCase(rc) {
				out.boolRet = o.r.constVec().Equals(o.a.constVec(), epsOf(rc))
			} else {
				out.boolRet = o.r.mat.Equals(o.a.mat, epsOf(rc))
			}
		case "VdotV":
			sc := NullScalar(t.st)
			sc.VdotV(o.a.constVec(), o.b.constVec())
			out.scalRet = projScalar(sc)
		case "As":
			switch {
			case isVecCase(rc) && isDense(rc.R.K):
				res = cont{vec: AsDenseVector(t.st, o.a.constVec())}
			case isVecCase(rc):
				res = cont{vec: AsSparseVector(t.st, o.a.constVec())}
			case isDense(rc.R.K):
				res = cont{mat: AsDenseMatrix(t.st, o.a.mat)}
			default:
				res = cont{mat: AsSparseMatrix(t.st, o.a.mat)}
			}
		case "New":
			res = newFromLists(t, rc, in.ak)
		case "Ctor":
			res = genericCtor(t, rc, o)
		default:
			panic("driver: unknown operation " + rc.Op)
		}
		if rc.Exp.T == "c" {
			out.content = project(res)
		}
		if rc.Op == "Ctor" || rc.Op == "As" || rc.Op == "New" {
			out.typeErr = checkType(t, rc, res)
		}
	})
	return out
}

// genericCtor calls the constructor / converter of vector.go, matrix.go that
// takes the element type as an argument and is named in the record.
func genericCtor(t *elemType, rc *rec, o operands) cont {
	rows, cols := rc.Dims[0], rc.Dims[1]
	switch rc.Ctor {
	case "NullDenseVector":
		return cont{vec: NullDenseVector(t.st, rows)}
	case "NullSparseVector":
		return cont{vec: NullSparseVector(t.st, rows)}
	case "AsDenseVector":
		return cont{vec: AsDenseVector(t.st, o.a.constVec())}
	case "AsSparseVector":
		return cont{vec: AsSparseVector(t.st, o.a.constVec())}
	case "NullDenseMagicVector":
		return cont{vec: NullDenseMagicVector(t.st, rows)}
	case "NullSparseMagicVector":
		return cont{vec: NullSparseMagicVector(t.st, rows)}
	case "AsDenseMagicVector":
		return cont{vec: AsDenseMagicVector(t.st, o.a.constVec())}
	case "AsSparseMagicVector":
		return cont{vec: AsSparseMagicVector(t.st, o.a.constVec())}
	case "NullDenseMatrix":
		return cont{mat: NullDenseMatrix(t.st, rows, cols)}
	case "NullSparseMatrix":
		return cont{mat: NullSparseMatrix(t.st, rows, cols)}
	case "AsDenseMatrix":
		return cont{mat: AsDenseMatrix(t.st, o.a.mat)}
	case "AsSparseMatrix":
		return cont{mat: AsSparseMatrix(t.st, o.a.mat)}
	case "NullDenseMagicMatrix":
		return cont{mat: NullDenseMagicMatrix(t.st, rows, cols)}
	case "NullSparseMagicMatrix":
		return cont{mat: NullSparseMagicMatrix(t.st, rows, cols)}
	case "AsDenseMagicMatrix":
		return cont{mat: AsDenseMagicMatrix(t.st, o.a.mat)}
	case "AsSparseMagicMatrix":
		return cont{mat: AsSparseMagicMatrix(t.st, o.a.mat)}
	case "DenseIdentityMatrix":
		return cont{mat: DenseIdentityMatrix(t.st, rows)}
	case "SparseIdentityMatrix":
		return cont{mat: SparseIdentityMatrix(t.st, rows)}
	case "DenseMagicIdentityMatrix":
		return cont{mat: DenseMagicIdentityMatrix(t.st, rows)}
	case "SparseMagicIdentityMatrix":
		return cont{mat: SparseMagicIdentityMatrix(t.st, rows)}
	}
	vh.Fatal("driver: the specification names a constructor the driver does not bind: " + rc.Ctor)
	return cont{}
}

// checkType: the constructed object has the element type the case is
// instantiated for (ElementType() and dynamic type), the storage class of the
// record and - integer types - the wrap-around width of that type.
func checkType(t *elemType, rc *rec, res cont) string {
	var et ScalarType
	kind := "Vector"
	if res.vec != nil {
		et = res.vec.ElementType()
	} else {
		et = res.mat.ElementType()
		kind = "Matrix"
	}
	if et != t.st {
		return fmt.Sprintf("ElementType() = %v, want %v", et, t.st)
	}
	sto := "Sparse"
	if isDense(rc.R.K) {
		sto = "Dense"
	}
	want := sto + t.name + kind
	if got := fmt.Sprintf("%T", res.obj()); !strings.HasSuffix(got, "."+want) {
		return fmt.Sprintf("dynamic type %s, want %s", got, want)
	}
	if rc.Probe != nil && t.class == "int" && len(rc.Exp.C) > 0 {
		var e Scalar
		if res.vec != nil {
			e = res.vec.At(0)
		} else {
			e = res.mat.At(0, 0)
		}
		one := NullScalar(t.st)
		one.SetInt64(t.resolve(&rc.Probe.Y))
		e.SetInt64(t.resolve(&rc.Probe.X))
		e.Add(e, one)
		if got, w := e.GetInt64(), t.resolve(&rc.Probe.Res); got != w {
			return fmt.Sprintf("element arithmetic is not that of %s: MaxInt+1 = %d, want %d", t.name, got, w)
		}
	}
	return ""
}

// newFromLists: construction from index/value lists.  The listed positions are
// rc.A.Reps[ak] (zeros may be listed explicitly), rc.S[0] = 1 lists them in
// descending order.
func newFromLists(t *elemType, rc *rec, ak string) cont {
	pos := append([]int{}, rc.A.Reps[ak]...)
	sort.Ints(pos)
	if rc.S[0] == 1 {
		for i, j := 0, len(pos)-1; i < j; i, j = i+1, j-1 {
			pos[i], pos[j] = pos[j], pos[i]
		}
	}
	n := len(rc.A.C)
	if isDense(rc.R.K) {
		vals := make([]float64, n)
		for i := range vals {
			vals[i] = float64(rc.A.C[i][0])
		}
		if isVecCase(rc) {
			return cont{vec: t.newDenseVec(vals)}
		}
		return cont{mat: t.newDenseMat(vals, rc.Dims[0], rc.Dims[1])}
	}
	vals := make([]float64, len(pos))
	for i, p := range pos {
		vals[i] = float64(rc.A.C[p-1][0])
	}
	if isVecCase(rc) {
		idx := make([]int, len(pos))
		for i, p := range pos {
			idx[i] = p - 1
		}
		return cont{vec: t.newSparseVec(idx, vals, n)}
	}
	ri := make([]int, len(pos))
	ci := make([]int, len(pos))
	for i, p := range pos {
		ri[i] = (p - 1) / rc.Dims[1]
		ci[i] = (p - 1) % rc.Dims[1]
	}
	return cont{mat: t.newSparseMat(ri, ci, vals, rc.Dims[0], rc.Dims[1])}
}

// runConcrete calls the capital-letter twin of the operation on the concrete
// types by reflection; it applies only when such a method exists and takes
// exactly the concrete types of the operands at hand.
func runConcrete(in inst, rc *rec, o operands) (out outcome) {
	recvObj := o.r.obj()
	if recvObj == nil {
		out.noPair = true
		return
	}
	m := reflect.ValueOf(recvObj).MethodByName(strings.ToUpper(rc.Op))
	if !m.IsValid() || strings.ToUpper(rc.Op) == rc.Op {
		out.noPair = true
		return
	}
	var args []interface{}
	switch rc.Op {
	case "VaddV", "VsubV", "VmulV", "VdivV", "MdotV", "VdotM", "MaddM", "MsubM", "MmulM", "MdivM", "MdotM", "Outer":
		args = []interface{}{o.a.obj(), o.b.obj()}
	case "VaddS", "VsubS", "VmulS", "VdivS", "MaddS", "MsubS", "MmulS", "MdivS":
		args = []interface{}{o.a.obj(), o.s}
	case "Set":
		args = []interface{}{o.a.obj()}
	case "Equals":
		args = []interface{}{o.a.obj(), epsOf(rc)}
	default:
		args = []interface{}{}
	}
	mt := m.Type()
	if mt.NumIn() != len(args) {
		out.noPair = true
		return
	}
	vals := make([]reflect.Value, len(args))
	for i, a := range args {
		if a == nil || reflect.TypeOf(a) != mt.In(i) {
			out.noPair = true
			return
		}
		vals[i] = reflect.ValueOf(a)
	}
	out.panicMsg = vh.Try(func() {
		ret := m.Call(vals)
		if rc.Op == "Equals" {
			out.boolRet = ret[0].Bool()
		}
		if rc.Exp.T == "c" {
			out.content = project(o.r)
		}
	})
	return out
}

// judge compares an outcome with what the specification demands.
// returns "" or the failure class, and the index of the first wrong element.
func judge(t *elemType, rc *rec, out outcome) (string, int) {
	intDiv := t.class == "int" && rc.Exp.T == "c" && hasSpecial(rc.Exp.C)
	if out.panicMsg != "" {
		if intDiv {
			return "", -1 // integer division by zero: panic allowed
		}
		return "panic", -1
	}
	if out.typeErr != "" {
		return "type", -1
	}
	switch rc.Exp.T {
	case "c":
		return compareContentS(t, rc.Exp.C, out.content, intDiv, rc.Ascale-rc.Bscale)
	case "b":
		if out.boolRet != rc.Exp.B {
			return "result", -1
		}
	case "s":
		if w := elemOK(t, rc.Exp.C[0], out.scalRet); w != "" {
			return w, 0
		}
	}
	return "", -1
}

func sameOutcome(a, b outcome) bool {
	if (a.panicMsg != "") != (b.panicMsg != "") {
		return false
	}
	if a.boolRet != b.boolRet || len(a.content) != len(b.content) {
		return false
	}
	for i := range a.content {
		if !sameF(a.content[i].V, b.content[i].V) || !sameF(a.content[i].D, b.content[i].D) {
			return false
		}
	}
	return true
}

// zeroForNaNOnly: every element that misses the demanded class is a plain 0
// where NaN is demanded (special operands, C03).
func zeroForNaNOnly(rc *rec, out outcome) bool {
	if out.panicMsg != "" || len(out.content) != len(rc.Exp.C) {
		return false
	}
	n := 0
	for i, e := range rc.Exp.C {
		if elemOK(&elemType{class: "plain"}, e, out.content[i]) == "" {
			continue
		}
		if !(e[2] == 3 && out.content[i].V == 0) {
			return false
		}
		n++
	}
	return n > 0
}

// classifySpecialDiff names the one known shape of a divergence on special
// operands (the concrete method wrote a plain 0 where the generic one computed
// NaN from a zero and an Inf/NaN); everything else is "differ_special".
func classifySpecialDiff(gen, conc outcome) string {
	if gen.panicMsg != "" || conc.panicMsg != "" || len(gen.content) != len(conc.content) || len(gen.content) == 0 ||
		gen.boolRet != conc.boolRet {
		return "differ_special"
	}
	n := 0
	for i := range gen.content {
		if sameF(gen.content[i].V, conc.content[i].V) && sameF(gen.content[i].D, conc.content[i].D) {
			continue
		}
		if !(gen.content[i].V != gen.content[i].V && conc.content[i].V == 0) {
			return "differ_special"
		}
		n++
	}
	if n == 0 {
		return "differ_special"
	}
	return "differ_special_concrete_zero_generic_nan"
}

func sameF(x, y float64) bool { return x == y || (x != x && y != y) }

func recvClass(rc *rec) string {
	switch {
	case rc.R.K == "-":
		return "scalar"
	case isDense(rc.R.K):
		return "dense"
	}
	return "sparse"
}

type stats struct {
	mu        sync.Mutex
	records   int
	cases     int
	concrete  int
	scalar    int
	byOp      map[string]int
	pairs     map[string]bool
	sigCount  map[string]int
	mism      int
	recvKinds map[string]int
	bothDev   map[string]int // special operands: generic = concrete, but not the class the specification prints (information)
	bothDevEx map[string]vh.M
}

// bothDeviate records a special-operand case in which generic and concrete agree
// with each other but not with the class demanded by the IEEE algebra of the
// specification: C09 (interchangeability) holds, the absolute value is the
// business of C02/C03.  Information only.
func bothDeviate(st *stats, sig vh.M, detail vh.M) {
	b, _ := json.Marshal(sig)
	st.mu.Lock()
	st.bothDev[string(b)]++
	if _, ok := st.bothDevEx[string(b)]; !ok && len(st.bothDevEx) < 40 {
		st.bothDevEx[string(b)] = detail
	}
	st.mu.Unlock()
}

type only struct {
	typ, ak, bk string
	constOp     string
}

func replay(args []string) {
	if len(args) < 3 {
		vh.Fatal("usage: containers replay cases results c03|c09")
	}
	mode := args[2]
	out := vh.NewOut(args[1])
	defer out.Close()
	st := &stats{byOp: map[string]int{}, pairs: map[string]bool{}, sigCount: map[string]int{}, recvKinds: map[string]int{},
		bothDev: map[string]int{}, bothDevEx: map[string]vh.M{}}
	var flt *only
	if s := os.Getenv("VERIF_ONLY"); s != "" { // replay of one stored violation: type,ak,bk,const
		p := strings.Split(s, ",")
		if len(p) == 4 {
			flt = &only{p[0], p[1], p[2], p[3]}
		}
	}
	nw := runtime.NumCPU()
	if nw > 8 {
		nw = 8
	}
	if v := vh.EnvInt("VERIF_WORKERS", 0); v > 0 {
		nw = v
	}
	lines := make(chan []byte, 1024)
	var wg sync.WaitGroup
	// watchdog: one slot per worker
	type slot struct {
		mu    sync.Mutex
		busy  bool
		start time.Time
		cur   string
	}
	slots := make([]*slot, nw)
	for i := range slots {
		slots[i] = &slot{}
	}
	go func() {
		for {
			time.Sleep(2 * time.Second)
			for _, s := range slots {
				s.mu.Lock()
				if s.busy && time.Since(s.start) > 30*time.Second {
					vh.Mismatch(out, vh.M{"engine": "containers", "what": "timeout"}, vh.M{"record": json.RawMessage(s.cur), "limit_s": 30})
					vh.Summary(out, vh.M{"aborted": "timeout"})
					out.Close()
					os.Exit(0)
				}
				s.mu.Unlock()
			}
		}
	}()
	for w := 0; w < nw; w++ {
		wg.Add(1)
		go func(sl *slot) {
			defer wg.Done()
			for line := range lines {
				var rc rec
				if e := json.Unmarshal(line, &rc); e != nil {
					vh.Fatal(fmt.Sprintf("bad case: %v: %.300s", e, line))
				}
				sl.mu.Lock()
				sl.busy, sl.start, sl.cur = true, time.Now(), string(line)
				sl.mu.Unlock()
				if rc.Sexp != nil {
					if mode == "c09" {
						scalarCase(&rc, line, out, st)
					}
				} else {
					containerCase(&rc, line, mode, flt, out, st)
				}
				sl.mu.Lock()
				sl.busy = false
				sl.mu.Unlock()
			}
		}(slots[w])
	}
	err := vh.EachLine(args[0], func(line []byte) error {
		lines <- append([]byte{}, line...)
		return nil
	})
	close(lines)
	wg.Wait()
	if err != nil {
		vh.Fatal(err)
	}
	pairs := make([]string, 0, len(st.pairs))
	for p := range st.pairs {
		pairs = append(pairs, p)
	}
	sort.Strings(pairs)
	vh.Summary(out, vh.M{"records": st.records, "cases": st.cases, "concrete_cases": st.concrete, "scalar_cases": st.scalar,
		"mismatches": st.mism, "by_op": st.byOp, "pairs": pairs, "sig_counts": st.sigCount, "recv_kinds": st.recvKinds,
		"types": len(elemTypes), "workers": nw, "both_deviate": st.bothDev, "both_deviate_examples": st.bothDevEx})
}

func report(out *vh.Out, st *stats, sig vh.M, detail vh.M) {
	b, _ := json.Marshal(sig)
	st.mu.Lock()
	st.mism++
	st.sigCount[string(b)]++
	n := st.sigCount[string(b)]
	st.mu.Unlock()
	if n <= 2 {
		vh.Mismatch(out, sig, detail)
	}
}

func containerCase(rc *rec, line []byte, mode string, flt *only, out *vh.Out, st *stats) {
	aks := sortedKeys(rc.A.Reps)
	bks := sortedKeys(rc.B.Reps)
	ncase, nconc := 0, 0
	pairs := map[string]bool{}
	for _, t := range elemTypes {
		if rc.Sp == "fs" && t.class == "int" {
			continue // Inf, NaN and -0 exist in the floating point and magic element types only
		}
		if !fits(t, rc) {
			continue // the element type cannot hold the values of the record exactly
		}
		if rc.Op == "Ctor" && strings.Contains(rc.Ctor, "Magic") && t.class != "real" {
			continue // the Magic constructors exist for the magic element types only
		}
		for _, ak := range aks {
			for _, bk := range bks {
				for _, constOp := range []bool{false, true} {
					if constOp {
						// the read-only sparse vectors exist for the non-magic types only and
						// stand in for the representation "s" of VECTOR operands
						usable := t.newConstVec != nil &&
							((ak == "s" && rc.A.Cols < 0) || (bk == "s" && rc.B.Cols < 0) ||
								(rc.Op == "Equals" && rc.R.K == "s" && rc.R.Cols < 0))
						if !usable || rc.Op == "New" {
							continue
						}
					}
					if flt != nil && (flt.typ != t.name || flt.ak != ak || flt.bk != bk || (flt.constOp == "1") != constOp) {
						continue
					}
					in := inst{t: t, ak: ak, bk: bk, constOp: constOp}
					ncase++
					gen := runGeneric(in, rc, in.build(rc))
					what, idx := judge(t, rc, gen)
					if what != "" && mode == "c03" {
						if rc.Sp == "fs" && what == "value" && zeroForNaNOnly(rc, gen) {
							what = "special_zero_where_nan" // the one known shape: a zero numerator over NaN stored as 0
						}
						report(out, st, vh.M{"engine": "containers", "variant": "generic", "op": rc.Op, "recv": recvClass(rc),
							"what": what, "type": t.name},
							vh.M{"record": json.RawMessage(line), "type": t.name, "ak": ak, "bk": bk, "const_operands": constOp,
								"variant": "generic", "index": idx, "expected": rc.Exp, "observed": obsOf(rc, gen)})
					}
					if mode != "c09" {
						continue
					}
					oc := in.build(rc)
					conc := runConcrete(in, rc, oc)
					if conc.noPair {
						continue
					}
					nconc++
					pairs[fmt.Sprintf("%T.%s/%s", oc.r.obj(), rc.Op, strings.ToUpper(rc.Op))] = true
					cwhat, cidx := judge(t, rc, conc)
					differ := !sameOutcome(gen, conc) && !(t.class == "int" && hasSpecial(rc.Exp.C))
					detail := func(variant string) vh.M {
						return vh.M{"record": json.RawMessage(line), "type": t.name, "ak": ak, "bk": bk, "const_operands": constOp,
							"variant": variant, "index": cidx, "expected": rc.Exp, "observed": obsOf(rc, conc),
							"generic_observed": obsOf(rc, gen)}
					}
					switch {
					case rc.Sp != "" && differ:
						// special operands: the two variants must produce the same class
						report(out, st, vh.M{"engine": "containers", "variant": "generic_vs_concrete", "op": rc.Op, "recv": recvClass(rc),
							"what": classifySpecialDiff(gen, conc), "type": t.name}, detail("generic_vs_concrete"))
					case rc.Sp != "" && cwhat != "":
						bothDeviate(st, vh.M{"engine": "containers", "op": rc.Op, "recv": recvClass(rc), "what": cwhat},
							vh.M{"type": t.name, "ak": ak, "bk": bk, "a": rc.A, "b": rc.B, "s": rc.S, "sf": rc.Sf, "expected": rc.Exp.C, "both": obsOf(rc, conc)})
					case cwhat != "":
						report(out, st, vh.M{"engine": "containers", "variant": "concrete", "op": rc.Op, "recv": recvClass(rc),
							"what": cwhat, "type": t.name}, detail("concrete"))
					case differ:
						report(out, st, vh.M{"engine": "containers", "variant": "generic_vs_concrete", "op": rc.Op, "recv": recvClass(rc),
							"what": "differ", "type": t.name}, detail("generic_vs_concrete"))
					}
				}
			}
		}
	}
	st.mu.Lock()
	st.records++
	st.cases += ncase
	st.concrete += nconc
	st.byOp[rc.Op] += ncase
	if rc.Epsu != 0 {
		st.byOp["Equals:eps"] += ncase
	}
	if rc.Kind != "" {
		st.byOp[rc.Kind+":"+rc.Op] += ncase
	}
	if rc.Op == "Ctor" {
		st.byOp["Ctor:"+rc.Ctor] += ncase
	}
	st.recvKinds[rc.R.K+"/"+rc.R.Pc] += ncase
	for p := range pairs {
		st.pairs[p] = true
	}
	st.mu.Unlock()
}

func obsOf(rc *rec, o outcome) vh.M {
	m := vh.M{"panic": o.panicMsg, "type_error": o.typeErr}
	switch rc.Exp.T {
	case "c":
		m["content"] = o.content
	case "b":
		m["bool"] = o.boolRet
	case "s":
		m["scalar"] = o.scalRet
	}
	return m
}
