// Conformance driver for the probability distributions (C14).
//
//	dist replay <cases.ndjson> <results.ndjson>
//	    executes every transition printed by spec/Dist.tla (life cycle of a
//	    distribution object: New / SetParameters / Clone / Eval) on the real
//	    library with Float64 and with Real64 parameters.  The expected class of
//	    every observation (finite with a symbolic term | -Inf | constructor
//	    error | ...) and all terms come from TLC; the driver only evaluates the
//	    leaves of a term with Go's math package (harness/exprlib).
//	dist record <cases.ndjson> <trace.ndjson> <results.ndjson>
//	    for every family that offers Cdf/LogCdf and every valid parameter tuple
//	    of the TLC grid: evaluates Cdf, LogCdf, LogPdf and the library's own
//	    derivative of Cdf on an increasing grid (TLC points + seeded random
//	    points + far points) and logs one event per point for spec/DistTrace.tla.
package main

import (
	"encoding/json"
	"fmt"
	"math"
	"math/rand"
	"os"
	"sort"
	"strconv"
	"strings"
	"time"

	. "github.com/pbenner/autodiff"
	st "github.com/pbenner/autodiff/statistics"
	"verifharness/exprlib"
	"verifharness/vh"
)

type rat struct {
	N float64 `json:"n"`
	D float64 `json:"d"`
}

func (r rat) f() float64 { return r.N / r.D }

type variant struct {
	V   string            `json:"v"`
	Lp  json.RawMessage   `json:"lp"`
	Dlp []json.RawMessage `json:"dlp"`
	Cdf json.RawMessage   `json:"cdf"`
	Dev []*deviation      `json:"dev"`
	lp  *exprlib.Term
	dlp []*exprlib.Term
	cdf *exprlib.Term
}

// deviation is a KnownDeviation_* term of the specification: what the code is
// known to compute instead of the contract (DESIGN.md 6.2).
type deviation struct {
	Name string          `json:"name"`
	Lp   json.RawMessage `json:"lp"`
	lp   *exprlib.Term
}

type family struct {
	Fam      string            `json:"fam"`
	NP       int               `json:"np"`
	XDim     int               `json:"xdim"`
	Params   [][]rat           `json:"params"`
	NValid   int               `json:"nvalid"`
	Variants []*variant        `json:"variants"`
	Pvec     []json.RawMessage `json:"pvec"`
	Dv       []int             `json:"dv"`
	HasCdf   bool              `json:"hascdf"`
	WGroups  [][]int           `json:"wgroups"`
	RawW     []int             `json:"rawweights"`
	Disc     bool              `json:"disc"`
	ExactPmf bool              `json:"exactpmf"`
	pvec     []*exprlib.Term
	vmap     map[string]*variant
}

type tcase struct {
	K     string          `json:"k"`
	Op    string          `json:"op"`
	Fam   string          `json:"fam"`
	A     int             `json:"a"`
	B     int             `json:"b"`
	W     int             `json:"w"`
	J     int             `json:"j"`
	Exp   string          `json:"exp"`
	X     []rat           `json:"x"`
	Cls   string          `json:"cls"`
	V     string          `json:"v"`
	Side  string          `json:"side"`
	Kink  bool            `json:"kink"`
	Why   string          `json:"why"`
	St    string          `json:"st"`
	Tok   string          `json:"tok"`
	Cdfq  rat             `json:"cdfq"`
	Pmf   []rat           `json:"pmf"`
	Scale json.RawMessage `json:"scale"`
	Tail  rat             `json:"tail"`
	Far   int             `json:"far"`
}

const u64 = 1.0 / (1 << 52)

var (
	fams    = map[string]*family{}
	out     *vh.Out
	perSig  = map[string]int{}
	counts  = map[string]int{}
	typeTab = []struct {
		name string
		t    ScalarType
	}{{"Float64", Float64Type}, {"Real64", Real64Type}}
)

func parseFamily(line []byte) error {
	f := &family{}
	if err := json.Unmarshal(line, f); err != nil {
		return err
	}
	f.vmap = map[string]*variant{}
	for _, v := range f.Variants {
		var err error
		if v.lp, err = exprlib.Parse(v.Lp); err != nil {
			return fmt.Errorf("%s lp: %v", f.Fam, err)
		}
		for _, d := range v.Dlp {
			t, err := exprlib.Parse(d)
			if err != nil {
				return fmt.Errorf("%s dlp: %v", f.Fam, err)
			}
			v.dlp = append(v.dlp, t)
		}
		for _, dv := range v.Dev {
			if dv.lp, err = exprlib.Parse(dv.Lp); err != nil {
				return fmt.Errorf("%s deviation: %v", f.Fam, err)
			}
		}
		if f.HasCdf {
			if v.cdf, err = exprlib.Parse(v.Cdf); err != nil {
				return fmt.Errorf("%s cdf: %v", f.Fam, err)
			}
		}
		f.vmap[v.V] = v
	}
	for _, p := range f.Pvec {
		t, err := exprlib.Parse(p)
		if err != nil {
			return fmt.Errorf("%s pvec: %v", f.Fam, err)
		}
		f.pvec = append(f.pvec, t)
	}
	fams[f.Fam] = f
	return nil
}

func (f *family) param(i int) []float64 {
	p := f.Params[i-1]
	r := make([]float64, len(p))
	for k := range p {
		r[k] = p[k].f()
	}
	return r
}

func evalTerm(t *exprlib.Term, vars []float64) (exprlib.Res, *exprlib.Env) {
	env := exprlib.NewEnv(vars, u64, 0)
	r := env.Eval(t)
	return r, env
}

// pvecOf evaluates the layout of the parameter vector at the tuple p.
func (f *family) pvecOf(p []float64) ([]float64, []float64, bool) {
	v := make([]float64, len(f.pvec))
	e := make([]float64, len(f.pvec))
	ok := true
	for i, t := range f.pvec {
		r, _ := evalTerm(t, p)
		v[i], e[i] = r.V, r.E
		if math.IsNaN(r.V) {
			ok = false
		}
	}
	return v, e, ok
}

func mismatch(sig vh.M, detail vh.M) {
	sig["engine"] = "dist"
	key, _ := json.Marshal(sig)
	perSig[string(key)]++
	counts["mismatch"]++
	if perSig[string(key)] > 3 {
		return
	}
	vh.Mismatch(out, sig, detail)
}

func jf(x float64) interface{} {
	if math.IsNaN(x) {
		return "NaN"
	}
	if math.IsInf(x, 1) {
		return "+Inf"
	}
	if math.IsInf(x, -1) {
		return "-Inf"
	}
	return x
}

func jfs(xs []float64) []interface{} {
	r := make([]interface{}, len(xs))
	for i, x := range xs {
		r[i] = jf(x)
	}
	return r
}

func vecFloats(v Vector) []float64 {
	r := make([]float64, v.Dim())
	for i := range r {
		r[i] = v.ConstAt(i).GetFloat64()
	}
	return r
}

func closeTo(a, b, tol float64) bool {
	if math.IsNaN(a) || math.IsNaN(b) {
		return false
	}
	if a == b {
		return true
	}
	return math.Abs(a-b) <= tol
}

// reconstruct rebuilds the source state (fam, a, b) through the public API:
//
//	b = 0 : A = New(P[a])
//	b > 0 : A = New(P[b]); B = A.Clone(); A.SetParameters(pvec(P[a]))
//
// so that object A has been through SetParameters (cached constants must be
// refreshed) and object B is a clone that must not follow A.
func reconstruct(f *family, c *tcase, t ScalarType, variables bool) (A, B *obj, msg string) {
	var err error
	if c.B == 0 {
		p := vh.Try(func() { A, err = build(f.Fam, f.param(c.A), t, variables) })
		if p != "" || err != nil {
			return nil, nil, fmt.Sprintf("constructor failed on a valid tuple: %v %s", err, p)
		}
		return A, nil, ""
	}
	p := vh.Try(func() { A, err = build(f.Fam, f.param(c.B), t, variables) })
	if p != "" || err != nil {
		return nil, nil, fmt.Sprintf("constructor failed on a valid tuple: %v %s", err, p)
	}
	p = vh.Try(func() { B = A.clone() })
	if p != "" || B == nil {
		return nil, nil, "Clone failed: " + p
	}
	// the new parameters of A: when derivatives are wanted the vector entries
	// are the activated parameter scalars of a second construction
	var pv Vector
	if variables {
		var A2 *obj
		p = vh.Try(func() { A2, err = build(f.Fam, f.param(c.A), t, true) })
		if p != "" || err != nil {
			return nil, nil, fmt.Sprintf("constructor failed on a valid tuple: %v %s", err, p)
		}
		// read the parameter vector of an object constructed with the
		// activated scalars: it carries the derivative information
		p = vh.Try(func() { pv = A2.get().CloneVector() })
		if p != "" {
			return nil, nil, "GetParameters failed: " + p
		}
		A.ps = A2.ps
	} else {
		vals, _, _ := f.pvecOf(f.param(c.A))
		pv = NullDenseVector(t, len(vals))
		for i := range vals {
			pv.At(i).SetFloat64(vals[i])
		}
	}
	p = vh.Try(func() { err = A.set(pv) })
	if p != "" || err != nil {
		return nil, nil, fmt.Sprintf("SetParameters failed on a valid tuple: %v %s", err, p)
	}
	return A, B, ""
}

func baseSig(c *tcase, tname string) vh.M {
	s := vh.M{"fam": c.Fam, "op": c.Op, "type": tname}
	if c.St != "" && c.St != "dense" {
		s["storage"] = c.St
	}
	return s
}

func caseDetail(c *tcase, f *family) vh.M {
	d := vh.M{"case": c}
	if c.A > 0 {
		d["params_a"] = f.param(c.A)
	}
	if c.B > 0 {
		d["params_b"] = f.param(c.B)
	}
	if c.J > 0 {
		d["params_j"] = f.param(c.J)
	}
	return d
}

func checkGet(f *family, c *tcase, tname string, o *obj, p []float64, what string) {
	want, werr, ok := f.pvecOf(p)
	if !ok {
		return
	}
	var got []float64
	pm := vh.Try(func() { got = vecFloats(o.get()) })
	bad := pm != "" || len(got) != len(want)
	if !bad {
		for i := range want {
			if !closeTo(got[i], want[i], 1e-12*(1+math.Abs(want[i]))+16*werr[i]) {
				bad = true
			}
		}
	}
	// the weights a mixture reports sum to one (every group of log-weights of the layout)
	if pm == "" {
		for _, g := range f.WGroups {
			if len(g) != 2 || g[1] > len(got) {
				continue
			}
			sum := 0.0
			for i := g[0]; i <= g[1]; i++ {
				sum += math.Exp(got[i-1])
			}
			counts["weight_sums"]++
			if !closeTo(sum, 1, 1e-12) {
				s := baseSig(c, tname)
				s["what"] = "weights_do_not_sum_to_one"
				s["after"] = what
				d := caseDetail(c, f)
				d["got_parameters"] = jfs(got)
				d["sum_of_weights"] = jf(sum)
				mismatch(s, d)
			}
		}
	}
	if bad {
		s := baseSig(c, tname)
		s["what"] = what
		d := caseDetail(c, f)
		d["want_parameters"] = jfs(want)
		d["got_parameters"] = jfs(got)
		d["panic"] = pm
		mismatch(s, d)
	}
	counts["get_checks"]++
}

// ---------------------------------------------------------------- replay

func replayNew(f *family, c *tcase) {
	p := f.param(c.J)
	for _, tt := range typeTab {
		var o *obj
		var err error
		pm := vh.Try(func() { o, err = build(f.Fam, p, tt.t, false) })
		if c.Exp == "error" {
			counts["ctor_invalid"]++
			if pm == "" && err == nil {
				s := baseSig(c, tt.name)
				s["what"] = "ctor_accepts_invalid"
				s["why"] = c.Why
				mismatch(s, caseDetail(c, f))
			}
			continue
		}
		counts["ctor_valid"]++
		if pm != "" || err != nil || o == nil {
			s := baseSig(c, tt.name)
			s["what"] = "ctor_rejects_valid"
			d := caseDetail(c, f)
			d["error"] = fmt.Sprint(err)
			d["panic"] = pm
			mismatch(s, d)
			continue
		}
		if st := o.stype(); st != tt.t {
			s := baseSig(c, tt.name)
			s["what"] = "scalar_type"
			mismatch(s, caseDetail(c, f))
		}
		checkGet(f, c, tt.name, o, p, "get_after_new")
		if len(f.RawW) > 0 {
			checkImport(f, c, tt.name, tt.t, o, p)
		}
		if f.ExactPmf && len(c.Pmf) > 0 {
			checkPmf(f, c, tt.name, tt.t, o, p)
		}
	}
}

// checkImport: ExportConfig, the weights of the outer mixture replaced by the raw
// (un-normalised) input weights, ImportConfig into a new object: the imported
// object must report the parameter vector of the contract (normalised weights).
func checkImport(f *family, c *tcase, tname string, t ScalarType, o *obj, p []float64) {
	var o2 *obj
	var err error
	pm := vh.Try(func() {
		cfg := o.export()
		raw := make([]float64, len(f.RawW))
		for i, k := range f.RawW {
			raw[i] = p[k-1]
		}
		cfg.Parameters = raw
		// through the JSON form, as a configuration file would be read
		var b []byte
		if b, err = json.Marshal(cfg); err != nil {
			return
		}
		var cfg2 st.ConfigDistribution
		if err = json.Unmarshal(b, &cfg2); err != nil {
			return
		}
		o2, err = o.imp(cfg2, t)
	})
	counts["config_imports"]++
	if pm != "" || err != nil || o2 == nil {
		s := baseSig(c, tname)
		s["what"] = "import_config_fails"
		d := caseDetail(c, f)
		d["error"] = fmt.Sprint(err)
		d["panic"] = pm
		mismatch(s, d)
		return
	}
	checkGet(f, c, tname, o2, p, "get_after_import")
}

// checkPmf compares exp(LogPdf(k)) with the exact rational mass computed by TLC.
func checkPmf(f *family, c *tcase, tname string, t ScalarType, o *obj, p []float64) {
	st, err := exprlib.Parse(c.Scale)
	if err != nil {
		vh.Fatal("scale term:", err)
	}
	sc, _ := evalTerm(st, nil)
	sum := 0.0
	for k := range c.Pmf {
		want := c.Pmf[k].f() * sc.V
		r := NewScalar(t, 0.0)
		var e error
		pm := vh.Try(func() { e = o.logpdf(r, []Scalar{NewScalar(t, float64(k))}) })
		got := math.Exp(r.GetFloat64())
		sum += got
		counts["pmf_points"]++
		if pm != "" || e != nil || !closeTo(got, want, 1e-12*want+1e-300) {
			s := baseSig(c, tname)
			s["what"] = "pmf"
			d := caseDetail(c, f)
			d["k"] = k
			d["want_mass"] = jf(want)
			d["got_mass"] = jf(got)
			d["error"] = fmt.Sprint(e)
			d["panic"] = pm
			mismatch(s, d)
		}
	}
	// normalisation: the partial sum plus the tail bound of the model reaches one
	tail := c.Tail.f() * sc.V
	if sum > 1+1e-12 || sum < 1-tail-1e-12 {
		s := baseSig(c, tname)
		s["what"] = "pmf_sum"
		d := caseDetail(c, f)
		d["partial_sum"] = jf(sum)
		d["tail_bound"] = jf(tail)
		mismatch(s, d)
	}
}

// families whose SetParameters killed the probe process (fatal runtime error):
// their Set transitions and every state reached through Set cannot be executed
var setBroken = map[string]bool{}

func replaySet(f *family, c *tcase) {
	for _, tt := range typeTab {
		A, B, msg := reconstruct(f, c, tt.t, false)
		if msg != "" {
			s := baseSig(c, tt.name)
			s["what"] = "reconstruct"
			d := caseDetail(c, f)
			d["reason"] = msg
			mismatch(s, d)
			continue
		}
		target, other := A, B
		pother := 0
		if c.B > 0 {
			pother = c.B
		}
		if c.W == 2 {
			target, other = B, A
			pother = c.A
		}
		q := f.param(c.J)
		vals, _, ok := f.pvecOf(q)
		if !ok {
			counts["set_skipped_unrepresentable"]++
			continue
		}
		pv := NullDenseVector(tt.t, len(vals))
		for i := range vals {
			pv.At(i).SetFloat64(vals[i])
		}
		var err error
		pm := vh.Try(func() { err = target.set(pv) })
		if c.Exp == "error" {
			counts["set_invalid"]++
			if pm == "" && err == nil {
				s := baseSig(c, tt.name)
				s["what"] = "set_accepts_invalid"
				s["why"] = c.Why
				mismatch(s, caseDetail(c, f))
			}
			continue
		}
		counts["set_valid"]++
		if pm != "" || err != nil {
			s := baseSig(c, tt.name)
			s["what"] = "set_rejects_valid"
			d := caseDetail(c, f)
			d["error"] = fmt.Sprint(err)
			d["panic"] = pm
			mismatch(s, d)
			continue
		}
		// the argument is an input: it must come back unchanged
		after := vecFloats(pv)
		for i := range vals {
			if after[i] != vals[i] && !(math.IsNaN(after[i]) && math.IsNaN(vals[i])) {
				s := baseSig(c, tt.name)
				s["what"] = "set_mutates_argument"
				d := caseDetail(c, f)
				d["argument_before"] = jfs(vals)
				d["argument_after"] = jfs(after)
				mismatch(s, d)
				break
			}
		}
		checkGet(f, c, tt.name, target, q, "get_after_set")
		if other != nil && pother > 0 {
			checkGet(f, c, tt.name, other, f.param(pother), "other_object_changed_by_set")
		}
	}
}

func replayClone(f *family, c *tcase) {
	for _, tt := range typeTab {
		A, _, msg := reconstruct(f, c, tt.t, false)
		if msg != "" {
			s := baseSig(c, tt.name)
			s["what"] = "reconstruct"
			d := caseDetail(c, f)
			d["reason"] = msg
			mismatch(s, d)
			continue
		}
		var B *obj
		pm := vh.Try(func() { B = A.clone() })
		if pm != "" || B == nil {
			s := baseSig(c, tt.name)
			s["what"] = "clone_panics"
			d := caseDetail(c, f)
			d["panic"] = pm
			mismatch(s, d)
			continue
		}
		counts["clones"]++
		checkGet(f, c, tt.name, B, f.param(c.A), "get_after_clone")
		if st := B.stype(); st != tt.t {
			s := baseSig(c, tt.name)
			s["what"] = "scalar_type"
			mismatch(s, caseDetail(c, f))
		}
	}
}

type evalRes struct {
	v      float64
	err    error
	pm     string
	d      []float64
	cdf    float64
	logcdf float64
	cerr   string
	hasCdf bool
}

func replayEval(f *family, c *tcase) {
	if c.St != "" {
		curStorage = c.St
		defer func() { curStorage = "dense" }()
		counts["storage_"+c.St]++
	}
	pidx := c.A
	if c.W == 2 {
		pidx = c.B
	}
	p := f.param(pidx)
	xs := make([]float64, len(c.X))
	for i := range xs {
		xs[i] = c.X[i].f()
	}
	vars := append(append([]float64{}, p...), xs...)
	vr := f.vmap[c.V]
	if vr == nil {
		vh.Fatal("unknown variant", c.Fam, c.V)
	}
	want, wenv := evalTerm(vr.lp, vars)
	wantOK := want.Finite() && !wenv.Overflow
	counts["eval_"+c.Cls]++
	var results [2]evalRes
	for ti, tt := range typeTab {
		variables := tt.name == "Real64" && len(f.Dv) > 0 && c.Cls == "finite"
		A, B, msg := reconstruct(f, c, tt.t, variables)
		if msg != "" {
			s := baseSig(c, tt.name)
			s["what"] = "reconstruct"
			d := caseDetail(c, f)
			d["reason"] = msg
			mismatch(s, d)
			return
		}
		target := A
		if c.W == 2 {
			target = B
		}
		xv := make([]Scalar, len(xs))
		for i := range xs {
			xv[i] = NewScalar(tt.t, xs[i])
		}
		res := &results[ti]
		r := NewScalar(tt.t, 0.0)
		res.pm = vh.Try(func() { res.err = target.logpdf(r, xv) })
		res.v = r.GetFloat64()
		if variables && res.pm == "" && res.err == nil {
			// derivatives w.r.t. the activated parameters of object A
			for _, i := range f.Dv {
				// a result that carries no derivative information does not
				// depend on the variables: its derivative is 0
				dv := 0.0
				if r.GetOrder() >= 1 && i-1 < r.GetN() {
					dv = r.GetDerivative(i - 1)
				}
				res.d = append(res.d, dv)
			}
		}
		if f.HasCdf && target.cdf != nil && target.logcdf != nil && len(xs) == 1 && (c.Cls != "nonint" || f.Disc) {
			res.hasCdf = true
			if variables {
				// values only: with activated parameters the Normal LogCdf refuses
				// loudly far in the tail (documented: use MagicLogCdf)
				A2, B2, m2 := reconstruct(f, c, tt.t, false)
				if m2 == "" {
					target = A2
					if c.W == 2 {
						target = B2
					}
				}
			}
			r1 := NewScalar(tt.t, 0.0)
			r2 := NewScalar(tt.t, 0.0)
			var e1, e2 error
			pm := vh.Try(func() {
				e1 = target.cdf(r1, NewScalar(tt.t, xs[0]))
				e2 = target.logcdf(r2, NewScalar(tt.t, xs[0]))
			})
			res.cdf, res.logcdf = r1.GetFloat64(), r2.GetFloat64()
			if pm != "" || e1 != nil || e2 != nil {
				res.cerr = fmt.Sprintf("%s %v %v", pm, e1, e2)
			}
		}
		// ---- LogPdf against the class demanded by the specification
		s := baseSig(c, tt.name)
		s["cls"] = c.Cls
		d := caseDetail(c, f)
		d["x"] = jfs(xs)
		d["params"] = p
		d["got"] = jf(res.v)
		d["error"] = fmt.Sprint(res.err)
		d["panic"] = res.pm
		d["want"] = jf(want.V)
		d["want_err_bound"] = jf(want.E)
		switch c.Cls {
		case "finite":
			if !wantOK {
				counts["skipped_undefined"]++
				break
			}
			tol := 1e-10*(1+math.Abs(want.V)) + 32*want.E
			if res.pm != "" {
				s["what"] = "panic"
				mismatch(s, d)
			} else if res.err != nil {
				s["what"] = "error_inside_support"
				mismatch(s, d)
			} else if !closeTo(res.v, want.V, tol) {
				s["what"] = "value"
				if math.IsNaN(res.v) {
					s["what"] = "nan_inside_support"
				} else if math.IsInf(res.v, -1) {
					s["what"] = "neginf_inside_support"
				}
				d["tol"] = tol
				// does the observation equal a known deviation of the specification?
				for _, dv := range vr.Dev {
					w2, e2 := evalTerm(dv.lp, vars)
					if w2.Finite() && !e2.Overflow && closeTo(res.v, w2.V, 1e-10*(1+math.Abs(w2.V))+32*w2.E) {
						s["what"] = "value_known_deviation"
						s["deviation"] = dv.Name
						d["deviation_value"] = jf(w2.V)
					}
				}
				mismatch(s, d)
			}
			counts["values_compared"]++
		case "neginf":
			if res.pm != "" {
				s["what"] = "panic_outside_support"
				mismatch(s, d)
			} else if res.err != nil || !math.IsInf(res.v, -1) {
				s["what"] = "not_neginf_outside_support"
				if math.IsNaN(res.v) {
					s["what"] = "nan_outside_support"
				}
				mismatch(s, d)
			}
		case "boundary":
			if res.pm != "" {
				s["what"] = "panic_on_boundary"
				mismatch(s, d)
			} else if res.err == nil {
				if math.IsNaN(res.v) {
					s["what"] = "nan_on_boundary"
					mismatch(s, d)
				} else if !math.IsInf(res.v, 0) && want.Finite() && !wenv.Overflow &&
					!closeTo(res.v, want.V, 1e-10*(1+math.Abs(want.V))+32*want.E) {
					s["what"] = "value_on_boundary"
					mismatch(s, d)
				}
			}
		case "nonint", "reject":
			if res.pm == "" && res.err == nil && !math.IsInf(res.v, -1) {
				s["what"] = "finite_for_inadmissible_argument"
				mismatch(s, d)
			}
		}
		// ---- derivatives w.r.t. the parameters against Expr!D of the term
		singular := false
		if c.B != 0 || len(f.WGroups) > 0 {
			// object A got its parameters through the parameter vector and object B is a
			// clone (Binomial clones through exp(log theta)); where the
			// layout is singular (log theta at theta = 0) the chain rule through
			// SetParameters is not defined
			pv, _, _ := f.pvecOf(p)
			for _, v := range pv {
				if math.IsInf(v, 0) {
					singular = true
					counts["deriv_skipped_singular_layout"]++
				}
			}
		}
		if len(res.d) > 0 && wantOK && c.Cls == "finite" && !singular {
			for k, i := range f.Dv {
				dw, denv := evalTerm(vr.dlp[k], vars)
				if !dw.Finite() || denv.Overflow || len(denv.Ties) > 0 {
					counts["deriv_skipped_undefined"]++
					continue
				}
				counts["derivs_compared"]++
				tol := 1e-8*(1+math.Abs(dw.V)) + 64*dw.E
				if !closeTo(res.d[k], dw.V, tol) {
					s2 := baseSig(c, tt.name)
					s2["what"] = "derivative"
					s2["param"] = i
					d2 := caseDetail(c, f)
					d2["x"] = jfs(xs)
					d2["params"] = p
					d2["want_derivative"] = jf(dw.V)
					d2["got_derivative"] = jf(res.d[k])
					d2["tol"] = tol
					mismatch(s2, d2)
				}
			}
		}
		// ---- Cdf / LogCdf against the CDF term
		if res.hasCdf {
			checkCdf(f, c, vr, tt.name, res, vars, xs, p)
		}
	}
	// ---- results do not depend on the scalar type holding the parameters
	a, b := results[0], results[1]
	if a.pm == "" && b.pm == "" && a.err == nil && b.err == nil {
		same := a.v == b.v || (math.IsNaN(a.v) && math.IsNaN(b.v)) || closeTo(a.v, b.v, 1e-12*(1+math.Abs(a.v)))
		if !same {
			s := vh.M{"fam": c.Fam, "op": c.Op, "what": "scalar_type_dependence", "cls": c.Cls}
			d := caseDetail(c, f)
			d["x"] = jfs(xs)
			d["Float64"] = jf(a.v)
			d["Real64"] = jf(b.v)
			mismatch(s, d)
		}
		counts["type_pairs"]++
	} else if (a.err == nil && a.pm == "") != (b.err == nil && b.pm == "") {
		// an error and a panic are the same observation (loud rejection, DESIGN 3.6)
		s := vh.M{"fam": c.Fam, "op": c.Op, "what": "scalar_type_dependence_error", "cls": c.Cls}
		d := caseDetail(c, f)
		d["x"] = jfs(xs)
		mismatch(s, d)
	}
}

// replayEvalSp: a discrete distribution function at +-Inf, +-2^63 and NaN.
func replayEvalSp(f *family, c *tcase) {
	var x float64
	switch c.Tok {
	case "pinf":
		x = math.Inf(1)
	case "ninf":
		x = math.Inf(-1)
	case "p2_63":
		x = 9223372036854775808.0
	case "m2_63":
		x = -9223372036854775808.0
	default:
		x = math.NaN()
	}
	for _, tt := range typeTab {
		A, B, msg := reconstruct(f, c, tt.t, false)
		if msg != "" {
			return // reported by the eval transitions of the same state
		}
		target := A
		if c.W == 2 {
			target = B
		}
		if target.cdf == nil || target.logcdf == nil {
			return
		}
		r0, r1, r2 := NewScalar(tt.t, 0.0), NewScalar(tt.t, 0.0), NewScalar(tt.t, 0.0)
		var e0, e1, e2 error
		pm := vh.Try(func() {
			e0 = target.logpdf(r0, []Scalar{NewScalar(tt.t, x)})
			e1 = target.cdf(r1, NewScalar(tt.t, x))
			e2 = target.logcdf(r2, NewScalar(tt.t, x))
		})
		counts["special_points"]++
		s := baseSig(c, tt.name)
		s["tok"] = c.Tok
		d := caseDetail(c, f)
		d["logpdf"], d["cdf"], d["logcdf"] = jf(r0.GetFloat64()), jf(r1.GetFloat64()), jf(r2.GetFloat64())
		d["panic"] = pm
		d["errors"] = fmt.Sprint(e0, e1, e2)
		if pm != "" {
			s["what"] = "panic_at_special_argument"
			mismatch(s, d)
			continue
		}
		if c.Side == "any" {
			continue
		}
		want := 0.0
		if c.Side == "above" {
			want = 1.0
		}
		if e0 != nil || !math.IsInf(r0.GetFloat64(), -1) {
			s["what"] = "not_neginf_outside_support"
			mismatch(s, d)
		}
		okLog := (want == 0 && (math.IsInf(r2.GetFloat64(), -1) || r2.GetFloat64() < -690)) || (want == 1 && closeTo(r2.GetFloat64(), 0, 1e-12))
		if e1 != nil || e2 != nil || !closeTo(r1.GetFloat64(), want, 1e-12) || !okLog {
			s2 := baseSig(c, tt.name)
			s2["tok"] = c.Tok
			s2["what"] = "cdf_outside_support_" + c.Side
			mismatch(s2, d)
		}
	}
}

func checkCdf(f *family, c *tcase, vr *variant, tname string, res *evalRes, vars, xs, p []float64) {
	s := baseSig(c, tname)
	s["cls"] = c.Cls
	d := caseDetail(c, f)
	d["x"] = jfs(xs)
	d["params"] = p
	d["cdf"] = jf(res.cdf)
	d["logcdf"] = jf(res.logcdf)
	d["cdf_error"] = res.cerr
	counts["cdf_points"]++
	if res.cerr != "" {
		s["what"] = "cdf_error"
		mismatch(s, d)
		return
	}
	var want float64
	tol := 1e-9
	switch {
	case f.Disc:
		// the exact distribution function of the model: sum of the exact masses of
		// the support points <= x, for integer and non-integer x alike
		want = c.Cdfq.f()
		tol = 1e-12
		counts["cdf_exact_points"]++
	case c.Cls == "neginf" && c.Side == "below":
		want = 0
	case c.Cls == "neginf" && c.Side == "above":
		want = 1
	default:
		w, env := evalTerm(vr.cdf, vars)
		if !w.Finite() || env.Overflow {
			if c.Cls == "boundary" {
				if math.IsNaN(res.cdf) || res.cdf < 0 || res.cdf > 1 {
					s["what"] = "cdf_on_boundary"
					mismatch(s, d)
				}
			}
			return
		}
		want = w.V
		tol += 32 * w.E
	}
	d["want_cdf"] = want
	if !closeTo(res.cdf, want, tol) {
		s["what"] = "cdf_value"
		if c.Cls == "neginf" {
			s["what"] = "cdf_outside_support_" + c.Side
		}
		mismatch(s, d)
		return
	}
	// LogCdf is the logarithm of Cdf
	if want == 0 {
		if !(math.IsInf(res.logcdf, -1) || res.logcdf < -690) {
			s["what"] = "logcdf_value"
			mismatch(s, d)
		}
		return
	}
	if !closeTo(res.logcdf, math.Log(want), (tol/want)*2+1e-9) {
		s["what"] = "logcdf_value"
		d["want_logcdf"] = math.Log(want)
		mismatch(s, d)
	}
}

func replay(casesPath, resultsPath string) {
	for _, f := range strings.Split(os.Getenv("VERIF_DIST_SETBROKEN"), ",") {
		if f != "" {
			setBroken[f] = true
		}
	}
	out = vh.NewOut(resultsPath)
	wd := vh.NewWatchdog(60*time.Second, out, vh.M{"engine": "dist"})
	n := 0
	err := vh.EachLine(casesPath, func(line []byte) error {
		var head struct {
			K string `json:"k"`
		}
		if err := json.Unmarshal(line, &head); err != nil {
			return err
		}
		if head.K == "fam" {
			return parseFamily(line)
		}
		c := &tcase{}
		if err := json.Unmarshal(line, c); err != nil {
			return err
		}
		if c.K != "t" {
			return nil
		}
		f := fams[c.Fam]
		if f == nil {
			return fmt.Errorf("case for unknown family %s", c.Fam)
		}
		n++
		if setBroken[c.Fam] && (c.Op == "set" || c.B != 0) {
			counts["skipped_set_fatal"]++
			return nil
		}
		wd.Begin(c)
		switch c.Op {
		case "new":
			replayNew(f, c)
		case "set":
			replaySet(f, c)
		case "clone":
			replayClone(f, c)
		case "evalsp":
			replayEvalSp(f, c)
		case "eval":
			replayEval(f, c)
		}
		wd.End()
		counts["op_"+c.Op]++
		return nil
	})
	if err != nil {
		vh.Fatal("replay:", err)
	}
	vh.Summary(out, vh.M{"cases": n, "counts": counts, "families": len(fams)})
	out.Close()
}

// ---------------------------------------------------------------- record

type gridPoint struct {
	x   float64
	pos string // lo | in | hi
	cls string // class demanded by TLC for grid points of the model, "" for added points
}

func record(casesPath, tracePath, resultsPath string) {
	out = vh.NewOut(resultsPath)
	tr := vh.NewOut(tracePath)
	seed := int64(vh.EnvInt("VERIF_SEED", 1))
	rng := rand.New(rand.NewSource(seed))
	type key struct {
		fam string
		a   int
	}
	grids := map[key][]gridPoint{}
	fars := map[key]int{}
	var order []key
	err := vh.EachLine(casesPath, func(line []byte) error {
		var head struct {
			K string `json:"k"`
		}
		if err := json.Unmarshal(line, &head); err != nil {
			return err
		}
		if head.K == "fam" {
			return parseFamily(line)
		}
		c := &tcase{}
		if err := json.Unmarshal(line, c); err != nil {
			return err
		}
		if c.Op == "new" && c.Exp == "ok" {
			fars[key{c.Fam, c.J}] = c.Far
		}
		if c.Op == "eval" && c.B == 0 && c.W == 1 && len(c.X) == 1 && (c.St == "" || c.St == "dense") {
			k := key{c.Fam, c.A}
			if _, ok := grids[k]; !ok {
				order = append(order, k)
			}
			cls := c.Cls
			if c.Kink {
				cls = "kink"
			}
			grids[k] = append(grids[k], gridPoint{c.X[0].f(), "in", cls})
		}
		return nil
	})
	if err != nil {
		vh.Fatal("reading cases:", err)
	}
	ngroups, npoints, nAD, nADfail := 0, 0, 0, 0
	for _, k := range order {
		f := fams[k.fam]
		if f == nil || !f.HasCdf {
			continue
		}
		g := grids[k]
		sort.Slice(g, func(i, j int) bool { return g[i].x < g[j].x })
		// seeded random points between the model's points (continuous families)
		if !f.Disc {
			var extra []gridPoint
			for i := 0; i+1 < len(g); i++ {
				for r := 0; r < 2; r++ {
					extra = append(extra, gridPoint{g[i].x + (g[i+1].x-g[i].x)*(0.05+0.9*rng.Float64()), "in", ""})
				}
			}
			for r := 1; r <= 4; r++ {
				extra = append(extra, gridPoint{g[len(g)-1].x + float64(r*r)*rng.Float64()*3, "in", ""})
				extra = append(extra, gridPoint{g[0].x - float64(r*r)*rng.Float64()*3, "in", ""})
			}
			g = append(g, extra...)
			sort.Slice(g, func(i, j int) bool { return g[i].x < g[j].x })
		}
		far := math.Pow(10, float64(fars[k]))
		g = append([]gridPoint{{-far, "lo", ""}}, g...)
		g = append(g, gridPoint{far, "hi", ""})
		if f.Disc {
			g[0].x, g[len(g)-1].x = -5, 50
		}
		p := f.param(k.a)
		var o *obj
		pm := vh.Try(func() { o, err = build(f.Fam, p, Real64Type, false) })
		if pm != "" || err != nil || o.cdf == nil || o.logcdf == nil {
			continue // reported by replay
		}
		ngroups++
		tr.Put(vh.M{"e": "begin", "fam": f.Fam, "a": k.a, "disc": f.Disc})
		prev := math.NaN()
		for i, pt := range g {
			ev := vh.M{"e": "pt", "i": i, "pos": pt.pos, "x": fmt.Sprint(pt.x), "fam": f.Fam, "a": k.a}
			var cdf, logcdf, lp, dcdf float64
			var e1, e2, e3 error
			useAD := pt.pos == "in" && !f.Disc
			pm := vh.Try(func() {
				r1, r2, r3 := NewReal64(0), NewReal64(0), NewReal64(0)
				e1 = o.cdf(r1, NewReal64(pt.x))
				e2 = o.logcdf(r2, NewReal64(pt.x))
				e3 = o.logpdf(r3, []Scalar{NewReal64(pt.x)})
				cdf, logcdf, lp = r1.GetFloat64(), r2.GetFloat64(), r3.GetFloat64()
			})
			dcdf = math.NaN()
			if useAD {
				// the library's own derivative of Cdf w.r.t. x; far in the tails the
				// library refuses loudly (documented: use MagicLogCdf), which is not
				// an observation about the value of the CDF
				var ea error
				pa := vh.Try(func() {
					r1 := NewReal64(0)
					x := NewReal64(pt.x)
					Variables(1, x)
					ea = o.cdf(r1, x)
					if r1.GetOrder() >= 1 && r1.GetN() >= 1 {
						dcdf = r1.GetDerivative(0)
					}
				})
				if pa != "" || ea != nil || math.IsNaN(dcdf) {
					useAD = false
					nADfail++
				} else {
					nAD++
				}
			}
			failed := pm != "" || e1 != nil || e2 != nil
			pdf := math.Exp(lp)
			nan := failed || math.IsNaN(cdf) || math.IsNaN(logcdf)
			// d/dx Cdf = pdf (library's own derivative), differences for discrete families
			dok := true
			if !nan && e3 == nil {
				if f.Disc {
					if pt.pos == "in" && pt.x == math.Floor(pt.x) && !math.IsNaN(prev) {
						dok = closeTo(cdf-prev, pdf, 1e-9)
					}
				} else if useAD && !math.IsNaN(pdf) && !math.IsInf(pdf, 0) && pt.cls != "boundary" && pt.cls != "kink" {
					dok = closeTo(dcdf, pdf, 1e-7*(1+pdf))
				}
			}
			lok := !nan && (closeTo(math.Exp(logcdf), cdf, 1e-9) || (cdf == 0 && logcdf < -690))
			sc := int64(-1)
			if !nan {
				sc = int64(math.Round(cdf * 1e9))
				if cdf < -1e-9 || cdf > 1+1e-9 {
					sc = -1
				}
			}
			ev["cdf"] = sc
			ev["nan"] = nan
			ev["dok"] = dok
			ev["lok"] = lok
			ev["cdf_f"] = fmt.Sprint(cdf)
			ev["logcdf_f"] = fmt.Sprint(logcdf)
			ev["pdf_f"] = fmt.Sprint(pdf)
			ev["dcdf_f"] = fmt.Sprint(dcdf)
			if failed {
				ev["err"] = fmt.Sprintf("%s %v %v", pm, e1, e2)
			}
			tr.Put(ev)
			npoints++
			if f.Disc && pt.x == math.Floor(pt.x) {
				prev = cdf
			}
		}
		tr.Put(vh.M{"e": "end", "fam": f.Fam, "a": k.a})
	}
	tr.Close()
	vh.Summary(out, vh.M{"groups": ngroups, "points": npoints, "seed": seed, "ad_points": nAD, "ad_unavailable": nADfail})
	out.Close()
}

// probe <fams.ndjson> <progress> <start>: for every family record from index
// <start> on: construct the first valid tuple, read the parameter vector, feed
// it back through SetParameters, clone.  Progress is appended to <progress>
// BEFORE every family, so that the parent sees which family killed the process
// (a fatal runtime error such as a stack overflow cannot be recovered).
func probe(famsPath, progressPath string, start int) {
	var lines [][]byte
	vh.EachLine(famsPath, func(line []byte) error {
		lines = append(lines, append([]byte{}, line...))
		return nil
	})
	pf, err := os.OpenFile(progressPath, os.O_APPEND|os.O_CREATE|os.O_WRONLY, 0644)
	if err != nil {
		vh.Fatal(err)
	}
	for i := start; i < len(lines); i++ {
		if err := parseFamily(lines[i]); err != nil {
			vh.Fatal(err)
		}
		var fr family
		json.Unmarshal(lines[i], &fr)
		f := fams[fr.Fam]
		fmt.Fprintf(pf, "start %d %s\n", i, f.Fam)
		pf.Sync()
		for _, tt := range typeTab {
			vh.Try(func() {
				o, err := build(f.Fam, f.param(1), tt.t, false)
				if err != nil || o == nil {
					return
				}
				v := o.get().CloneVector()
				o.set(v)
				o.clone()
			})
		}
		fmt.Fprintf(pf, "ok %d %s\n", i, f.Fam)
		pf.Sync()
	}
	fmt.Fprintf(pf, "done\n")
	pf.Close()
}

func main() {
	if len(os.Args) < 2 {
		vh.Fatal("usage: dist replay|record ...")
	}
	switch os.Args[1] {
	case "replay":
		if len(os.Args) != 4 {
			vh.Fatal("usage: dist replay <cases.ndjson> <results.ndjson>")
		}
		replay(os.Args[2], os.Args[3])
	case "probe":
		if len(os.Args) != 5 {
			vh.Fatal("usage: dist probe <fams.ndjson> <progress> <start>")
		}
		st, _ := strconv.Atoi(os.Args[4])
		probe(os.Args[2], os.Args[3], st)
	case "record":
		if len(os.Args) != 5 {
			vh.Fatal("usage: dist record <cases.ndjson> <trace.ndjson> <results.ndjson>")
		}
		record(os.Args[2], os.Args[3], os.Args[4])
	default:
		vh.Fatal("unknown sub-command", os.Args[1])
	}
}
