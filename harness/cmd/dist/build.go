package main

// Binding of the abstract family names of spec/Dist.tla to the public
// constructors of the library.  Nothing here knows a formula: a family name and
// a parameter tuple are turned into a real distribution object, and the object
// is wrapped so that the driver can call LogPdf / Cdf / LogCdf / GetParameters /
// SetParameters / Clone uniformly.

import (
	"fmt"

	. "github.com/pbenner/autodiff"
	st "github.com/pbenner/autodiff/statistics"
	md "github.com/pbenner/autodiff/statistics/matrixDistribution"
	sd "github.com/pbenner/autodiff/statistics/scalarDistribution"
	vd "github.com/pbenner/autodiff/statistics/vectorDistribution"
)

type obj struct {
	logpdf func(r Scalar, x []Scalar) error
	cdf    func(r Scalar, x Scalar) error
	logcdf func(r Scalar, x Scalar) error
	get    func() Vector
	set    func(Vector) error
	clone  func() *obj
	stype  func() ScalarType
	// export: the configuration of the object; imp: a new object from a configuration
	export func() st.ConfigDistribution
	imp    func(c st.ConfigDistribution, t ScalarType) (*obj, error)
	ps     []Scalar // the scalars handed to the constructor (index = parameter number - 1)
}

func vecOf(t ScalarType, xs []Scalar) Vector {
	v := NullDenseVector(t, len(xs))
	for i, x := range xs {
		v.At(i).Set(x)
	}
	return v
}

// curStorage is the storage kind of the evaluation point demanded by the case
// being replayed (dense | sparse | sparse0 | view); LogPdf must not depend on it.
var curStorage = "dense"

// pointVec stores the coordinates of a vector valued evaluation point as demanded.
func pointVec(t ScalarType, xs []Scalar) Vector {
	switch curStorage {
	case "sparse": // only the non-zero coordinates are stored
		v := NullSparseVector(t, len(xs))
		for i, x := range xs {
			if x.GetFloat64() != 0.0 {
				v.At(i).Set(x)
			}
		}
		return v
	case "sparse0": // every coordinate is stored, zeros included
		v := NullSparseVector(t, len(xs))
		for i, x := range xs {
			v.At(i).Set(x)
		}
		return v
	case "view": // a window onto a longer dense vector
		big := NullDenseVector(t, len(xs)+3)
		for i := 0; i < big.Dim(); i++ {
			big.At(i).SetFloat64(7.5)
		}
		v := big.Slice(2, 2+len(xs))
		for i, x := range xs {
			v.At(i).Set(x)
		}
		return v
	}
	return vecOf(t, xs)
}

// pointMat converts a dense matrix valued evaluation point to the demanded storage.
func pointMat(m Matrix) Matrix {
	t := m.ElementType()
	r, c := m.Dims()
	switch curStorage {
	case "sparse":
		v := NullSparseMatrix(t, r, c)
		for i := 0; i < r; i++ {
			for j := 0; j < c; j++ {
				if m.At(i, j).GetFloat64() != 0.0 {
					v.At(i, j).Set(m.At(i, j))
				}
			}
		}
		return v
	case "view": // a window onto a larger dense matrix
		big := NullDenseMatrix(t, r+2, c+3)
		br, bc := big.Dims()
		for i := 0; i < br; i++ {
			for j := 0; j < bc; j++ {
				big.At(i, j).SetFloat64(7.5)
			}
		}
		v := big.Slice(1, 1+r, 2, 2+c)
		for i := 0; i < r; i++ {
			for j := 0; j < c; j++ {
				v.At(i, j).Set(m.At(i, j))
			}
		}
		return v
	}
	return m
}

func sym2(t ScalarType, a11, a12, a22 Scalar) Matrix {
	m := NullDenseMatrix(t, 2, 2)
	m.At(0, 0).Set(a11)
	m.At(0, 1).Set(a12)
	m.At(1, 0).Set(a12)
	m.At(1, 1).Set(a22)
	return m
}

func sym1(t ScalarType, a11 Scalar) Matrix {
	m := NullDenseMatrix(t, 1, 1)
	m.At(0, 0).Set(a11)
	return m
}

// tri3 is the symmetric tridiagonal 3x3 matrix (a11 a12 a22 a23 a33), a13 = 0.
func tri3(t ScalarType, a []Scalar) Matrix {
	m := NullDenseMatrix(t, 3, 3)
	m.At(0, 0).Set(a[0])
	m.At(0, 1).Set(a[1])
	m.At(1, 0).Set(a[1])
	m.At(1, 1).Set(a[2])
	m.At(1, 2).Set(a[3])
	m.At(2, 1).Set(a[3])
	m.At(2, 2).Set(a[4])
	return m
}

func diag3(t ScalarType, a []Scalar) Matrix {
	m := NullDenseMatrix(t, 3, 3)
	for i := 0; i < 3; i++ {
		m.At(i, i).Set(a[i])
	}
	return m
}

// matOf turns the coordinates of a matrix-valued evaluation point into a matrix.
func matOf(x []Scalar) Matrix {
	t := x[0].Type()
	switch len(x) {
	case 1:
		return sym1(t, x[0])
	case 3:
		return sym2(t, x[0], x[1], x[2])
	default:
		return tri3(t, x)
	}
}

func wrapScalar(d st.ScalarPdf) *obj {
	o := &obj{}
	o.logpdf = func(r Scalar, x []Scalar) error { return d.LogPdf(r, x[0]) }
	o.get = d.GetParameters
	o.set = d.SetParameters
	o.stype = d.ScalarType
	o.clone = func() *obj { return wrapScalar(d.CloneScalarPdf()) }
	o.export = d.ExportConfig
	o.imp = func(c st.ConfigDistribution, t ScalarType) (*obj, error) {
		d2, err := st.ImportScalarPdfConfig(c, t)
		if err != nil {
			return nil, err
		}
		return wrapScalar(d2), nil
	}
	if c, ok := d.(interface {
		Cdf(Scalar, ConstScalar) error
	}); ok {
		o.cdf = func(r Scalar, x Scalar) error { return c.Cdf(r, x) }
	}
	if c, ok := d.(interface {
		LogCdf(Scalar, ConstScalar) error
	}); ok {
		o.logcdf = func(r Scalar, x Scalar) error { return c.LogCdf(r, x) }
	}
	// the Laplace distribution takes the point as a vector of length one
	if c, ok := d.(interface {
		Cdf(Scalar, Vector) error
	}); ok {
		o.cdf = func(r Scalar, x Scalar) error { return c.Cdf(r, vecOf(x.Type(), []Scalar{x})) }
	}
	if c, ok := d.(interface {
		LogCdf(Scalar, Vector) error
	}); ok {
		o.logcdf = func(r Scalar, x Scalar) error { return c.LogCdf(r, vecOf(x.Type(), []Scalar{x})) }
	}
	return o
}

func wrapVector(d st.VectorPdf) *obj {
	o := &obj{}
	o.logpdf = func(r Scalar, x []Scalar) error { return d.LogPdf(r, pointVec(x[0].Type(), x)) }
	o.get = d.GetParameters
	o.set = d.SetParameters
	o.stype = d.ScalarType
	o.clone = func() *obj { return wrapVector(d.CloneVectorPdf()) }
	o.export = d.ExportConfig
	o.imp = func(c st.ConfigDistribution, t ScalarType) (*obj, error) {
		d2, err := st.ImportVectorPdfConfig(c, t)
		if err != nil {
			return nil, err
		}
		return wrapVector(d2), nil
	}
	return o
}

// colOf: the coordinates as the rows of an n x 1 matrix (a sequence of 1-d observations)
func colOf(x []Scalar) Matrix {
	m := NullDenseMatrix(x[0].Type(), len(x), 1)
	for i := range x {
		m.At(i, 0).Set(x[i])
	}
	return m
}

func wrapMatrix(d st.MatrixPdf) *obj { return wrapMatrixWith(d, matOf) }

func wrapMatrixWith(d st.MatrixPdf, mk func([]Scalar) Matrix) *obj {
	o := &obj{}
	o.logpdf = func(r Scalar, x []Scalar) error { return d.LogPdf(r, pointMat(mk(x))) }
	o.get = d.GetParameters
	o.set = d.SetParameters
	o.stype = d.ScalarType
	o.clone = func() *obj { return wrapMatrixWith(d.CloneMatrixPdf(), mk) }
	o.export = d.ExportConfig
	o.imp = func(c st.ConfigDistribution, t ScalarType) (*obj, error) {
		d2, err := st.ImportMatrixPdfConfig(c, t)
		if err != nil {
			return nil, err
		}
		return wrapMatrixWith(d2, mk), nil
	}
	return o
}

// build calls the public constructor of the family.  variables: activate the
// parameters as first-order variables (Real64 only).
func build(fam string, p []float64, t ScalarType, variables bool) (*obj, error) {
	ps := make([]Scalar, len(p))
	for i := range p {
		ps[i] = NewScalar(t, p[i])
	}
	if variables {
		ms := make([]MagicScalar, len(ps))
		for i := range ps {
			m, ok := ps[i].(MagicScalar)
			if !ok {
				return nil, fmt.Errorf("harness: type %v has no derivatives", t)
			}
			ms[i] = m
		}
		if err := Variables(1, ms...); err != nil {
			return nil, fmt.Errorf("harness: Variables: %v", err)
		}
	}
	s := func(i int) Scalar { return ps[i-1] }
	var o *obj
	sc := func(d st.ScalarPdf, err error) error {
		if err != nil {
			return err
		}
		o = wrapScalar(d)
		return nil
	}
	vc := func(d st.VectorPdf, err error) error {
		if err != nil {
			return err
		}
		o = wrapVector(d)
		return nil
	}
	var err error
	switch fam {
	case "normal":
		d, e := sd.NewNormalDistribution(s(1), s(2))
		err = sc(d, e)
	case "laplace":
		d, e := sd.NewLaplaceDistribution(s(1), s(2))
		err = sc(d, e)
	case "pareto":
		d, e := sd.NewParetoDistribution(s(1), s(2))
		err = sc(d, e)
	case "gpareto":
		d, e := sd.NewGParetoDistribution(s(1), s(2), s(3))
		err = sc(d, e)
	case "gpareto0":
		d, e := sd.NewGParetoDistribution(s(1), s(2), NewScalar(t, 0.0))
		err = sc(d, e)
	case "gev":
		d, e := sd.NewGevDistribution(s(1), s(2), s(3))
		err = sc(d, e)
	case "gev0":
		d, e := sd.NewGevDistribution(s(1), s(2), NewScalar(t, 0.0))
		err = sc(d, e)
	case "gamma":
		d, e := sd.NewGammaDistribution(s(1), s(2))
		err = sc(d, e)
	case "beta":
		d, e := sd.NewBetaDistribution(s(1), s(2), false)
		err = sc(d, e)
	case "betalog":
		d, e := sd.NewBetaDistribution(s(1), s(2), true)
		err = sc(d, e)
	case "cauchy":
		d, e := sd.NewCauchyDistribution(s(1), s(2))
		err = sc(d, e)
	case "chisq":
		d, e := sd.NewChiSquaredDistribution(t, p[0])
		err = sc(d, e)
	case "exponential":
		d, e := sd.NewExponentialDistribution(s(1))
		err = sc(d, e)
	case "gengamma":
		d, e := sd.NewGeneralizedGammaDistribution(s(1), s(2), s(3))
		err = sc(d, e)
	case "powerlaw":
		d, e := sd.NewPowerLawDistribution(s(1), s(2))
		err = sc(d, e)
	case "binomial":
		d, e := sd.NewBinomialDistribution(s(1), int(p[1]))
		err = sc(d, e)
	case "negbinomial":
		d, e := sd.NewNegativeBinomialDistribution(s(1), s(2))
		err = sc(d, e)
	case "poisson":
		d, e := sd.NewPoissonDistribution(s(1))
		err = sc(d, e)
	case "geometric":
		d, e := sd.NewGeometricDistribution(s(1))
		err = sc(d, e)
	case "categorical":
		d, e := sd.NewCategoricalDistribution(vecOf(t, ps))
		err = sc(d, e)
	case "delta":
		d, e := sd.NewDeltaDistribution(s(1))
		err = sc(d, e)
	case "logt_normal":
		base, e := sd.NewNormalDistribution(s(1), s(2))
		if e != nil {
			return nil, e
		}
		d, e := sd.NewPdfLogTransform(base, p[2])
		err = sc(d, e)
	case "logt_gamma":
		base, e := sd.NewGammaDistribution(s(1), s(2))
		if e != nil {
			return nil, e
		}
		d, e := sd.NewPdfLogTransform(base, p[2])
		err = sc(d, e)
	case "trans_exp":
		base, e := sd.NewExponentialDistribution(s(1))
		if e != nil {
			return nil, e
		}
		d, e := sd.NewPdfTranslation(base, p[1])
		err = sc(d, e)
	case "mix_normal_exp":
		c1, e := sd.NewNormalDistribution(s(3), s(4))
		if e != nil {
			return nil, e
		}
		c2, e := sd.NewExponentialDistribution(s(5))
		if e != nil {
			return nil, e
		}
		d, e := sd.NewMixture(vecOf(t, ps[0:2]), []st.ScalarPdf{c1, c2})
		err = sc(d, e)
	case "mix_exp_pareto":
		c1, e := sd.NewExponentialDistribution(s(3))
		if e != nil {
			return nil, e
		}
		c2, e := sd.NewParetoDistribution(s(4), s(5))
		if e != nil {
			return nil, e
		}
		d, e := sd.NewMixture(vecOf(t, ps[0:2]), []st.ScalarPdf{c1, c2})
		err = sc(d, e)
	case "iid_normal":
		base, e := sd.NewNormalDistribution(s(1), s(2))
		if e != nil {
			return nil, e
		}
		d, e := vd.NewScalarIid(base, 2)
		err = vc(d, e)
	case "iid_exp":
		base, e := sd.NewExponentialDistribution(s(1))
		if e != nil {
			return nil, e
		}
		d, e := vd.NewScalarIid(base, 2)
		err = vc(d, e)
	case "id_normal_exp":
		c1, e := sd.NewNormalDistribution(s(1), s(2))
		if e != nil {
			return nil, e
		}
		c2, e := sd.NewExponentialDistribution(s(3))
		if e != nil {
			return nil, e
		}
		d, e := vd.NewScalarId(c1, c2)
		err = vc(d, e)
	case "vnormal":
		d, e := vd.NewNormalDistribution(vecOf(t, ps[0:2]), sym2(t, s(3), s(4), s(5)))
		err = vc(d, e)
	case "vt":
		d, e := vd.NewTDistribution(s(1), vecOf(t, ps[1:3]), sym2(t, s(4), s(5), s(6)))
		err = vc(d, e)
	case "skewnormal":
		d, e := vd.NewSkewNormalDistribution(vecOf(t, ps[0:2]), sym2(t, s(3), s(4), s(5)), vecOf(t, ps[5:7]), vecOf(t, ps[7:9]))
		err = vc(d, e)
	case "hmm2_nn":
		c1, e := sd.NewNormalDistribution(s(7), s(8))
		if e != nil {
			return nil, e
		}
		c2, e := sd.NewNormalDistribution(s(9), s(10))
		if e != nil {
			return nil, e
		}
		tr := NullDenseMatrix(t, 2, 2)
		for i := 0; i < 4; i++ {
			tr.At(i/2, i%2).Set(ps[2+i])
		}
		d, e := vd.NewHmm(vecOf(t, ps[0:2]), tr, nil, []st.ScalarPdf{c1, c2})
		err = vc(d, e)
	case "mhmm2_vn1":
		c1, e := vd.NewNormalDistribution(vecOf(t, ps[6:7]), sym1(t, s(8)))
		if e != nil {
			return nil, e
		}
		c2, e := vd.NewNormalDistribution(vecOf(t, ps[8:9]), sym1(t, s(10)))
		if e != nil {
			return nil, e
		}
		tr := NullDenseMatrix(t, 2, 2)
		for i := 0; i < 4; i++ {
			tr.At(i/2, i%2).Set(ps[2+i])
		}
		d, e := md.NewHmm(vecOf(t, ps[0:2]), tr, nil, []st.VectorPdf{c1, c2})
		if e != nil {
			return nil, e
		}
		o = wrapMatrixWith(d, colOf)
	case "mix1_normal":
		c1, e := sd.NewNormalDistribution(s(2), s(3))
		if e != nil {
			return nil, e
		}
		d, e := sd.NewMixture(vecOf(t, ps[0:1]), []st.ScalarPdf{c1})
		err = sc(d, e)
	case "mix3_nen":
		c1, e := sd.NewNormalDistribution(s(4), s(5))
		if e != nil {
			return nil, e
		}
		c2, e := sd.NewExponentialDistribution(s(6))
		if e != nil {
			return nil, e
		}
		c3, e := sd.NewNormalDistribution(s(7), s(8))
		if e != nil {
			return nil, e
		}
		d, e := sd.NewMixture(vecOf(t, ps[0:3]), []st.ScalarPdf{c1, c2, c3})
		err = sc(d, e)
	case "mixnest":
		c1, e := sd.NewNormalDistribution(s(5), s(6))
		if e != nil {
			return nil, e
		}
		c2, e := sd.NewExponentialDistribution(s(7))
		if e != nil {
			return nil, e
		}
		inner, e := sd.NewMixture(vecOf(t, ps[2:4]), []st.ScalarPdf{c1, c2})
		if e != nil {
			return nil, e
		}
		c3, e := sd.NewNormalDistribution(s(8), s(9))
		if e != nil {
			return nil, e
		}
		d, e := sd.NewMixture(vecOf(t, ps[0:2]), []st.ScalarPdf{inner, c3})
		err = sc(d, e)
	case "vmix1_vnormal":
		c1, e := vd.NewNormalDistribution(vecOf(t, ps[1:3]), sym2(t, s(4), s(5), s(6)))
		if e != nil {
			return nil, e
		}
		d, e := vd.NewMixture(vecOf(t, ps[0:1]), []st.VectorPdf{c1})
		err = vc(d, e)
	case "vmix2_vn1":
		c1, e := vd.NewNormalDistribution(vecOf(t, ps[2:3]), sym1(t, s(4)))
		if e != nil {
			return nil, e
		}
		c2, e := vd.NewNormalDistribution(vecOf(t, ps[4:5]), sym1(t, s(6)))
		if e != nil {
			return nil, e
		}
		d, e := vd.NewMixture(vecOf(t, ps[0:2]), []st.VectorPdf{c1, c2})
		err = vc(d, e)
	case "mmix1_iw1":
		c1, e := md.NewInverseWishartDistribution(s(2), sym1(t, s(3)))
		if e != nil {
			return nil, e
		}
		d, e := md.NewMixture(vecOf(t, ps[0:1]), []st.MatrixPdf{c1})
		if e != nil {
			return nil, e
		}
		o = wrapMatrix(d)
	case "mmix2_iw1":
		c1, e := md.NewInverseWishartDistribution(s(3), sym1(t, s(4)))
		if e != nil {
			return nil, e
		}
		c2, e := md.NewInverseWishartDistribution(s(5), sym1(t, s(6)))
		if e != nil {
			return nil, e
		}
		d, e := md.NewMixture(vecOf(t, ps[0:2]), []st.MatrixPdf{c1, c2})
		if e != nil {
			return nil, e
		}
		o = wrapMatrix(d)
	case "vnormal1":
		d, e := vd.NewNormalDistribution(vecOf(t, ps[0:1]), sym1(t, s(2)))
		err = vc(d, e)
	case "vnormal3":
		d, e := vd.NewNormalDistribution(vecOf(t, ps[0:3]), tri3(t, ps[3:8]))
		err = vc(d, e)
	case "vt1":
		d, e := vd.NewTDistribution(s(1), vecOf(t, ps[1:2]), sym1(t, s(3)))
		err = vc(d, e)
	case "vt3":
		d, e := vd.NewTDistribution(s(1), vecOf(t, ps[1:4]), tri3(t, ps[4:9]))
		err = vc(d, e)
	case "skewnormal1":
		d, e := vd.NewSkewNormalDistribution(vecOf(t, ps[0:1]), sym1(t, s(2)), vecOf(t, ps[2:3]), vecOf(t, ps[3:4]))
		err = vc(d, e)
	case "iid_normal1", "iid_normal3":
		base, e := sd.NewNormalDistribution(s(1), s(2))
		if e != nil {
			return nil, e
		}
		n := 1
		if fam == "iid_normal3" {
			n = 3
		}
		d, e := vd.NewScalarIid(base, n)
		err = vc(d, e)
	case "iid_exp3":
		base, e := sd.NewExponentialDistribution(s(1))
		if e != nil {
			return nil, e
		}
		d, e := vd.NewScalarIid(base, 3)
		err = vc(d, e)
	case "id_normal1":
		c1, e := sd.NewNormalDistribution(s(1), s(2))
		if e != nil {
			return nil, e
		}
		d, e := vd.NewScalarId(c1)
		err = vc(d, e)
	case "id_nen3":
		c1, e := sd.NewNormalDistribution(s(1), s(2))
		if e != nil {
			return nil, e
		}
		c2, e := sd.NewExponentialDistribution(s(3))
		if e != nil {
			return nil, e
		}
		c3, e := sd.NewNormalDistribution(s(4), s(5))
		if e != nil {
			return nil, e
		}
		d, e := vd.NewScalarId(c1, c2, c3)
		err = vc(d, e)
	case "iwishart1":
		d, e := md.NewInverseWishartDistribution(s(1), sym1(t, s(2)))
		if e != nil {
			return nil, e
		}
		o = wrapMatrix(d)
	case "iwishart3":
		d, e := md.NewInverseWishartDistribution(s(1), diag3(t, ps[1:4]))
		if e != nil {
			return nil, e
		}
		o = wrapMatrix(d)
	case "iwishart":
		d, e := md.NewInverseWishartDistribution(s(1), sym2(t, s(2), s(3), s(4)))
		if e != nil {
			return nil, e
		}
		o = wrapMatrix(d)
	default:
		return nil, fmt.Errorf("harness: unknown family %q", fam)
	}
	if err != nil {
		return nil, err
	}
	o.ps = ps
	return o, nil
}
