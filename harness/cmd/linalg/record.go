package main

// code -> model: seeded random larger matrices (n = 5..8, integer entries)
// through the real routines; one event per call.  The residual booleans are
// computed here in float64; spec/LinSolveTrace.tla re-derives the class of the
// input (row dominance under the logged permutation, structural singularity,
// exact determinant) and requires the contract on the logged outcome.

import (
	"math"
	"math/rand"
	"strconv"
	"sync"
	"time"

	. "github.com/pbenner/autodiff"
	"github.com/pbenner/autodiff/algorithm/backSubstitution"
	"github.com/pbenner/autodiff/algorithm/determinant"
	"github.com/pbenner/autodiff/algorithm/gaussJordan"
	"github.com/pbenner/autodiff/algorithm/matrixInverse"
	"verifharness/vh"
)

type event struct {
	E      string    `json:"e"`   // inv | solve | backsub | det
	Ty     string    `json:"ty"`  // element type
	Cls    string    `json:"cls"` // dominant | singular | random | triangular
	N      int       `json:"n"`
	A      [][]int64 `json:"a"`
	Perm   []int     `json:"perm"` // 1-based: row perm[i] is dominated by its entry in column i
	B      []int64   `json:"b"`
	Err    bool      `json:"err"`
	Panic  bool      `json:"panic"`
	HasRes bool      `json:"hasres"`
	Shape  bool      `json:"shape"`
	Finite bool      `json:"finite"`
	Resid  bool      `json:"resid"`
	Val    int64     `json:"val"`   // det: result rounded to the nearest integer
	Close  bool      `json:"close"` // det: result within 1e-6 (1+|val|) of that integer
}

func randMatrix(rng *rand.Rand, n int) [][]int64 {
	a := make([][]int64, n)
	for i := range a {
		a[i] = make([]int64, n)
		for j := range a[i] {
			a[i][j] = int64(rng.Intn(7) - 3)
		}
	}
	return a
}

func absI(x int64) int64 {
	if x < 0 {
		return -x
	}
	return x
}

// make row perm[i] strictly dominated by its entry in column i
func makeDominant(rng *rand.Rand, a [][]int64) []int {
	n := len(a)
	perm := rng.Perm(n)
	for i := 0; i < n; i++ {
		r := perm[i]
		s := int64(0)
		for j := 0; j < n; j++ {
			if j != i {
				s += absI(a[r][j])
			}
		}
		v := s + 1 + int64(rng.Intn(3))
		if rng.Intn(2) == 0 {
			v = -v
		}
		a[r][i] = v
	}
	out := make([]int, n)
	for i := range perm {
		out[i] = perm[i] + 1
	}
	return out
}

func makeSingular(rng *rand.Rand, a [][]int64) {
	n := len(a)
	switch rng.Intn(3) {
	case 0:
		r := rng.Intn(n)
		for j := 0; j < n; j++ {
			a[r][j] = 0
		}
	case 1:
		c := rng.Intn(n)
		for i := 0; i < n; i++ {
			a[i][c] = 0
		}
	default:
		r1 := rng.Intn(n)
		r2 := (r1 + 1 + rng.Intn(n-1)) % n
		copy(a[r2], a[r1])
	}
}

func normInf(a [][]float64) float64 {
	m := 0.0
	for _, r := range a {
		s := 0.0
		for _, x := range r {
			s += math.Abs(x)
		}
		m = math.Max(m, s)
	}
	return m
}

func record(args []string) {
	if len(args) < 2 {
		vh.Fatal("usage: linalg record trace ncases [goroutines]")
	}
	ncases, _ := strconv.Atoi(args[1])
	workers := 1
	if len(args) > 2 {
		workers, _ = strconv.Atoi(args[2])
	}
	seed := int64(vh.EnvInt("VERIF_SEED", 1))
	out := vh.NewOut(args[0])
	defer out.Close()
	wd := vh.NewWatchdog(60*time.Second, out, vh.M{"engine": "linalg", "op": "record", "type": "any", "opts": "any"})
	if workers <= 1 {
		rng := rand.New(rand.NewSource(seed*7919 + 13))
		for q := 0; q < ncases; q++ {
			ev := oneCall(rng, false)
			out.Put(ev)
		}
		return
	}
	// Re-entrancy probe: the same calls from several goroutines at the same
	// time, every goroutine on its own inputs.  The property's equations hold
	// for every call, whatever else the process is doing; a routine that keeps
	// state between calls shows up as a wrong result (rejected by the trace
	// specification) or as a report of the race detector (-race build).
	wd.Begin(vh.M{"concurrent": workers, "ncases": ncases})
	var wg sync.WaitGroup
	start := make(chan struct{})
	for w := 0; w < workers; w++ {
		wg.Add(1)
		go func(w int) {
			defer wg.Done()
			rng := rand.New(rand.NewSource(seed*7919 + 13 + int64(w)*104729))
			<-start
			for q := 0; q < ncases; q++ {
				out.Put(oneCall(rng, true))
			}
		}(w)
	}
	close(start)
	wg.Wait()
	wd.End()
}

// one recorded call on a fresh random input; f64only restricts to the
// DenseFloat64 (hand-specialised) paths
func oneCall(rng *rand.Rand, f64only bool) event {
	{
		n := 5 + rng.Intn(4)
		ti := allTypes[0]
		if rng.Intn(2) == 1 && !f64only {
			ti = allTypes[2]
		}
		ev := event{Ty: ti.name, N: n, Perm: []int{}, B: []int64{}}
		a := randMatrix(rng, n)
		kind := rng.Intn(10)
		switch {
		case kind < 5:
			ev.Cls = "dominant"
			ev.Perm = makeDominant(rng, a)
		case kind < 7:
			ev.Cls = "singular"
			makeSingular(rng, a)
		case kind < 8:
			ev.Cls = "random"
		default:
			ev.Cls = "triangular"
			for i := 0; i < n; i++ {
				for j := 0; j < i; j++ {
					a[i][j] = 0
				}
				if a[i][i] == 0 {
					a[i][i] = 2
				}
			}
		}
		ev.A = a
		af := intM(a)
		b := make([]int64, n)
		for i := range b {
			b[i] = int64(rng.Intn(9) - 4)
		}
		switch {
		case ev.Cls == "triangular":
			ev.E = "backsub"
			ev.B = b
			var res Vector
			o := call(func() error {
				var err error
				res, err = backSubstitution.Run(mkMatrix(ti.t, a), mkVector(ti.t, b))
				return err
			})
			ev.Err, ev.Panic = o.err != "", o.panic != ""
			if res != nil {
				x := vecVals(res)
				ev.HasRes, ev.Shape, ev.Finite = true, len(x) == n, allFiniteV(x)
				ev.Resid = ev.Shape && ev.Finite && residV(af, x, b)
			}
		case (ev.Cls == "dominant" || ev.Cls == "random") && n <= 6 && rng.Intn(3) == 0:
			ev.E = "det"
			var res Scalar
			o := call(func() error {
				var err error
				res, err = determinant.Run(mkMatrix(ti.t, a))
				return err
			})
			ev.Err, ev.Panic = o.err != "", o.panic != ""
			if res != nil {
				v := res.GetFloat64()
				ev.HasRes, ev.Shape, ev.Finite = true, true, finite(v)
				if ev.Finite && math.Abs(v) < 1e9 {
					ev.Val = int64(math.Round(v))
					ev.Close = math.Abs(v-float64(ev.Val)) <= 1e-6*(1+math.Abs(v))
				}
				ev.Resid = ev.Close
			}
		case rng.Intn(2) == 0:
			ev.E = "inv"
			var res Matrix
			o := call(func() error {
				var err error
				res, err = matrixInverse.Run(mkMatrix(ti.t, a))
				return err
			})
			ev.Err, ev.Panic = o.err != "", o.panic != ""
			if res != nil {
				x := matVals(res)
				rr, cc := res.Dims()
				ev.HasRes, ev.Shape, ev.Finite = true, rr == n && cc == n, allFiniteM(x)
				ev.Resid = ev.Shape && ev.Finite && residM(af, x)
			}
		default:
			ev.E = "solve"
			ev.B = b
			am := mkMatrix(ti.t, a)
			x := mkIdentity(ti.t, n)
			bv := mkVector(ti.t, b)
			o := call(func() error { return gaussJordan.Run(am, x, bv) })
			ev.Err, ev.Panic = o.err != "", o.panic != ""
			if !o.loud() {
				xs := vecVals(bv)
				xm := matVals(x)
				ev.HasRes, ev.Shape, ev.Finite = true, len(xs) == n, allFiniteV(xs) && allFiniteM(xm)
				ev.Resid = ev.Shape && ev.Finite && residV(af, xs, b) && residM(af, xm)
			}
		}
		return ev
	}
}

// max |A X - I| <= 1e-9 n ||A|| ||X||
func residM(a, x [][]float64) bool {
	n := len(a)
	bound := 1e-9 * float64(n) * math.Max(1, normInf(a)*normInf(x))
	for i := 0; i < n; i++ {
		for j := 0; j < n; j++ {
			s := 0.0
			for k := 0; k < n; k++ {
				s += a[i][k] * x[k][j]
			}
			if i == j {
				s -= 1
			}
			if !(math.Abs(s) <= bound) {
				return false
			}
		}
	}
	return true
}

// max |A x - b| <= 1e-9 n (||A|| ||x|| + ||b||)
func residV(a [][]float64, x []float64, b []int64) bool {
	n := len(a)
	nx, nb := 0.0, 0.0
	for i := 0; i < n; i++ {
		nx = math.Max(nx, math.Abs(x[i]))
		nb = math.Max(nb, math.Abs(float64(b[i])))
	}
	bound := 1e-9 * float64(n) * math.Max(1, normInf(a)*nx+nb)
	for i := 0; i < n; i++ {
		s := -float64(b[i])
		for k := 0; k < n; k++ {
			s += a[i][k] * x[k]
		}
		if !(math.Abs(s) <= bound) {
			return false
		}
	}
	return true
}
