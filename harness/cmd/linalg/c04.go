package main

// C04: the real inverse / Gauss-Jordan / back substitution / determinant
// routines on every case printed by spec/LinSolve.tla (and the pivot cases of
// spec/GaussJordanPerm.tla), all element types, all option combinations.
// Expected values are the exact rationals of the specification.

import (
	"math"

	. "github.com/pbenner/autodiff"
	"github.com/pbenner/autodiff/algorithm/backSubstitution"
	"github.com/pbenner/autodiff/algorithm/cholesky"
	"github.com/pbenner/autodiff/algorithm/determinant"
	"github.com/pbenner/autodiff/algorithm/gaussJordan"
	"github.com/pbenner/autodiff/algorithm/matrixInverse"
	"verifharness/vh"
)

// expected result of a (sub-)matrix inversion
type expectInv struct {
	want  [][]float64 // nil when singular
	kappa float64
	sing  string // "none", "zero_row", "zero_col", "equal_rows", "other"
}

func expectFull(c *MatCase) expectInv {
	if c.Det == 0 {
		return expectInv{nil, 1, c.Sing}
	}
	return expectInv{ratM(c.Inv), c.Kap.F(), "none"}
}

// inverse of the selected principal sub-matrix embedded into the identity
func embed(n int, mask []bool, inv [][]float64) [][]float64 {
	sel := []int{}
	for i, b := range mask {
		if b {
			sel = append(sel, i)
		}
	}
	out := make([][]float64, n)
	for i := 0; i < n; i++ {
		out[i] = make([]float64, n)
		out[i][i] = 1
	}
	for a, i := range sel {
		for b, j := range sel {
			out[i][j] = inv[a][b]
		}
	}
	return out
}

func expectSub(c *MatCase, s *Sub) expectInv {
	if s.Det == 0 {
		return expectInv{nil, 1, s.Sing}
	}
	return expectInv{embed(c.N, s.M, ratM(s.Inv)), s.Kap.F(), "none"}
}

func structural(sing string) bool {
	return sing == "zero_row" || sing == "zero_col" || sing == "equal_rows"
}

// judgeM applies the contract to one matrix-valued result.
// Returns the observed values when they are a regular finite answer (for the
// buffer-independence comparison), nil otherwise.
func (r *reporter) judgeM(op, typ, opts string, extra vh.M, o outcome, res ConstMatrix, e expectInv, scale float64, n int) [][]float64 {
	r.nchecks++
	got := matVals(res)
	switch {
	case e.sing == "none":
		if o.loud() {
			r.mismatch(op, typ, opts, "error_on_regular", extra, vh.M{"expected": e.want, "observed": o.String(), "kappa": e.kappa})
			return nil
		}
		if res == nil {
			r.mismatch(op, typ, opts, "nil_result", extra, vh.M{"expected": e.want})
			return nil
		}
		if rr, cc := res.Dims(); rr != n || cc != n {
			r.mismatch(op, typ, opts, "shape", extra, vh.M{"expected": n, "observed": []int{rr, cc}})
			return nil
		}
		if ok, i, j := cmpM(got, e.want, tolFn(scale, e.kappa)); !ok {
			r.mismatch(op, typ, opts, "value", extra, vh.M{"expected": e.want, "observed": jsonVals(got), "at": []int{i, j}, "kappa": e.kappa})
			return nil
		}
		return got
	case structural(e.sing):
		r.count("singular_structural")
		if !o.loud() && res != nil && allFiniteM(got) {
			r.mismatch(op, typ, opts, "finite_on_singular", extra, vh.M{"class": e.sing, "observed": jsonVals(got)})
		}
		if o.loud() {
			r.count("singular_loud")
		} else {
			r.count("singular_nonfinite")
		}
	default:
		// singular without a structural reason: the property does not say
		r.count("singular_other")
	}
	return nil
}

func (r *reporter) judgeV(op, typ, opts string, extra vh.M, o outcome, res ConstVector, want []float64, kappa float64, sing string, scale float64) []float64 {
	r.nchecks++
	got := vecVals(res)
	switch {
	case sing == "none":
		if o.loud() {
			r.mismatch(op, typ, opts, "error_on_regular", extra, vh.M{"expected": want, "observed": o.String()})
			return nil
		}
		if res == nil {
			r.mismatch(op, typ, opts, "nil_result", extra, vh.M{"expected": want})
			return nil
		}
		if ok, i := cmpV(got, want, tolFn(scale, kappa)); !ok {
			r.mismatch(op, typ, opts, "value", extra, vh.M{"expected": want, "observed": jsonVec(got), "at": i, "kappa": kappa})
			return nil
		}
		return got
	case structural(sing):
		r.count("singular_structural")
		if !o.loud() && res != nil && allFiniteV(got) {
			r.mismatch(op, typ, opts, "finite_on_singular", extra, vh.M{"class": sing, "observed": jsonVec(got)})
		}
	default:
		r.count("singular_other")
	}
	return nil
}

// results must not depend on the buffers handed in
func (r *reporter) sameAs(op, typ, opts string, ref, got [][]float64, ti tinfo, kappa float64) {
	if ref == nil || got == nil {
		return
	}
	r.nchecks++
	if ok, i, j := cmpM(got, ref, tolFn(16*ti.u, kappa)); !ok {
		r.mismatch(op, typ, opts, "buffer_dependence", nil, vh.M{"expected": ref, "observed": jsonVals(got), "at": []int{i, j}})
	}
}

func junkScalar(t ScalarType, k int) Scalar { return NewScalar(t, junk(k)) }

func (r *reporter) c04Case(c *MatCase) {
	for _, ti := range allTypes {
		r.c04Inverse(c, ti)
		r.c04GaussJordan(c, ti)
		if c.Tri {
			r.c04BackSubstitution(c, ti)
		}
		r.c04Determinant(c, ti)
		r.c04History(c, ti)
		r.c04Windows(c, ti)
	}
}

// ---------------------------------------------------------------- matrixInverse.Run

func (r *reporter) inverse(c *MatCase, ti tinfo, opts string, extra vh.M, e expectInv, args ...interface{}) [][]float64 {
	a := mkMatrix(ti.t, c.A)
	var res Matrix
	o := call(func() error {
		var err error
		res, err = matrixInverse.Run(a, args...)
		return err
	})
	return r.judgeM("inverse", ti.name, opts, extra, o, res, e, ti.tol, c.N)
}

func (r *reporter) c04Inverse(c *MatCase, ti tinfo) {
	n, t := c.N, ti.t
	full := expectFull(c)
	ref := r.inverse(c, ti, "default", nil, full)
	got := r.inverse(c, ti, "insitu_fresh", nil, full,
		&matrixInverse.InSitu{Id: NullDenseMatrix(t, n, n), A: NullDenseMatrix(t, n, n), B: NullDenseVector(t, n)})
	r.sameAs("inverse", ti.name, "insitu_fresh", ref, got, ti, full.kappa)
	got = r.inverse(c, ti, "insitu_dirty", nil, full,
		&matrixInverse.InSitu{Id: dirtyMatrix(t, n), A: dirtyMatrix(t, n), B: dirtyVector(t, n)})
	r.sameAs("inverse", ti.name, "insitu_dirty", ref, got, ti, full.kappa)
	// the same buffers used twice in a row
	{
		is := &matrixInverse.InSitu{}
		r.inverse(c, ti, "insitu_reuse", nil, full, is)
		got = r.inverse(c, ti, "insitu_reuse", nil, full, is)
		r.sameAs("inverse", ti.name, "insitu_reuse", ref, got, ti, full.kappa)
	}
	// aliasing: the work buffer A is the input matrix itself (as the repository's
	// own TestMatrixPerformance sets it up): the input may be consumed, the result must be right
	{
		a := mkMatrix(t, c.A)
		var res Matrix
		o := call(func() error {
			var err error
			res, err = matrixInverse.Run(a, &matrixInverse.InSitu{A: a})
			return err
		})
		got = r.judgeM("inverse", ti.name, "insitu_a_is_input", nil, o, res, full, ti.tol, n)
		r.sameAs("inverse", ti.name, "insitu_a_is_input", ref, got, ti, full.kappa)
	}
	if c.Tri {
		got = r.inverse(c, ti, "tri", nil, full, matrixInverse.UpperTriangular{Value: true})
		r.sameAs("inverse", ti.name, "tri", ref, got, ti, full.kappa*1e3) // different algorithm: only a loose cross-check
		r.inverse(c, ti, "tri+insitu_dirty", nil, full, matrixInverse.UpperTriangular{Value: true},
			&matrixInverse.InSitu{Id: dirtyMatrix(t, n), A: dirtyMatrix(t, n), B: dirtyVector(t, n)})
	}
	if c.Spd {
		pd := matrixInverse.PositiveDefinite{Value: true}
		refpd := r.inverse(c, ti, "pd", nil, full, pd)
		got = r.inverse(c, ti, "pd+insitu_fresh", nil, full, pd, &matrixInverse.InSitu{
			Id: NullDenseMatrix(t, n, n), B: NullDenseVector(t, n),
			Cholesky: cholesky.InSitu{L: NullDenseMatrix(t, n, n), S: NullScalar(t), T: NullScalar(t)}})
		r.sameAs("inverse", ti.name, "pd+insitu_fresh", refpd, got, ti, full.kappa)
		got = r.inverse(c, ti, "pd+insitu_dirty", nil, full, pd, &matrixInverse.InSitu{
			Id: dirtyMatrix(t, n), B: dirtyVector(t, n),
			Cholesky: cholesky.InSitu{L: dirtyMatrix(t, n), S: junkScalar(t, 5), T: junkScalar(t, 6)}})
		r.sameAs("inverse", ti.name, "pd+insitu_dirty", refpd, got, ti, full.kappa)
		{
			is := &matrixInverse.InSitu{}
			r.inverse(c, ti, "pd+insitu_reuse", nil, full, pd, is)
			got = r.inverse(c, ti, "pd+insitu_reuse", nil, full, pd, is)
			r.sameAs("inverse", ti.name, "pd+insitu_reuse", refpd, got, ti, full.kappa)
		}
	}
	for k := range c.Subs {
		s := &c.Subs[k]
		e := expectSub(c, s)
		sm := gaussJordan.Submatrix{Value: s.M}
		r.note = vh.M{"mask": s.M}
		ref := r.inverse(c, ti, "sub", nil, e, sm)
		got := r.inverse(c, ti, "sub+insitu_dirty", nil, e, sm,
			&matrixInverse.InSitu{Id: dirtyMatrix(t, n), A: dirtyMatrix(t, n), B: dirtyVector(t, n)})
		r.sameAs("inverse", ti.name, "sub+insitu_dirty", ref, got, ti, e.kappa)
		if c.Tri {
			r.inverse(c, ti, "tri+sub", nil, e, sm, matrixInverse.UpperTriangular{Value: true})
		}
		if c.Spd {
			r.inversePdSub(c, ti, s, e)
		}
		r.note = nil
	}
}

// PositiveDefinite together with Submatrix.  For a mask that is not a prefix
// the library is known to invert the restricted Cholesky factor instead of the
// restricted matrix (finding C04-pd-submatrix); the specification prints what
// that gives (devinv) and the signature says whether the observation is
// exactly this deviation or something else.
func (r *reporter) inversePdSub(c *MatCase, ti tinfo, s *Sub, e expectInv) {
	a := mkMatrix(ti.t, c.A)
	var res Matrix
	o := call(func() error {
		var err error
		res, err = matrixInverse.Run(a, matrixInverse.PositiveDefinite{Value: true}, gaussJordan.Submatrix{Value: s.M})
		return err
	})
	if s.Prefix {
		r.judgeM("inverse", ti.name, "pd+sub", vh.M{"mask_class": "prefix"}, o, res, e, ti.tol, c.N)
		return
	}
	r.nchecks++
	got := matVals(res)
	if !o.loud() && res != nil && e.want != nil {
		if ok, _, _ := cmpM(got, e.want, tolFn(ti.tol, e.kappa)); ok {
			r.count("pd_sub_nonprefix_right")
			return
		}
	}
	dev := "other"
	if !o.loud() && res != nil && len(s.Devinv) > 0 {
		if ok, _, _ := cmpM(got, embed(c.N, s.M, ratM(s.Devinv)), tolFn(ti.tol, math.Max(e.kappa, 1)*1e3)); ok {
			dev = "restricted_factor"
		}
	}
	r.mismatch("inverse", ti.name, "pd+sub", "value", vh.M{"mask_class": "nonprefix", "deviation": dev},
		vh.M{"expected": e.want, "observed": jsonVals(got), "outcome": o.String(), "mask": s.M,
			"deviation_model": "inverse of L_SS L_SS' (factor of the whole matrix restricted to the mask)"})
}

// ---------------------------------------------------------------- gaussJordan.Run

func rhsList(n int) (names []string, bs [][]int64) {
	ones := make([]int64, n)
	ramp := make([]int64, n)
	for i := 0; i < n; i++ {
		ones[i] = 1
		ramp[i] = int64(i + 1)
	}
	names = append(names, "ones", "ramp")
	bs = append(bs, ones, ramp)
	for k := 0; k < n; k++ {
		e := make([]int64, n)
		e[k] = 1
		names = append(names, "e")
		bs = append(bs, e)
	}
	return
}

func column(m [][]float64, k int) []float64 {
	out := make([]float64, len(m))
	for i := range m {
		out[i] = m[i][k]
	}
	return out
}

func (r *reporter) gj(c *MatCase, ti tinfo, opts string, b []int64, eX expectInv, wantB []float64, args ...interface{}) {
	a := mkMatrix(ti.t, c.A)
	x := mkIdentity(ti.t, c.N)
	bv := mkVector(ti.t, b)
	o := call(func() error { return gaussJordan.Run(a, x, bv, args...) })
	r.judgeM("gaussJordan", ti.name, opts, vh.M{"part": "x"}, o, x, eX, ti.tol, c.N)
	r.judgeV("gaussJordan", ti.name, opts, vh.M{"part": "b"}, o, bv, wantB, eX.kappa, eX.sing, ti.tol)
}

func (r *reporter) c04GaussJordan(c *MatCase, ti tinfo) {
	full := expectFull(c)
	names, bs := rhsList(c.N)
	for q := range bs {
		var want []float64
		if full.sing == "none" {
			switch names[q] {
			case "ones":
				want = ratV(c.Sol[0])
			case "ramp":
				want = ratV(c.Sol[1])
			default:
				want = column(full.want, q-2)
			}
		}
		r.note = vh.M{"rhs": bs[q]}
		r.gj(c, ti, "default", bs[q], full, want)
		if c.Tri {
			r.gj(c, ti, "tri", bs[q], full, want, gaussJordan.UpperTriangular{Value: true})
		}
	}
	r.note = vh.M{"rhs": bs[1]}
	ramp := bs[1]
	for k := range c.Subs {
		s := &c.Subs[k]
		e := expectSub(c, s)
		var want []float64
		if e.sing == "none" {
			want = make([]float64, c.N)
			sol := ratV(s.Sol)
			q := 0
			for i := 0; i < c.N; i++ {
				if s.M[i] {
					want[i] = sol[q]
					q++
				} else {
					want[i] = float64(ramp[i])
				}
			}
		}
		r.note = vh.M{"rhs": ramp, "mask": s.M}
		r.gj(c, ti, "sub", ramp, e, want, gaussJordan.Submatrix{Value: s.M})
		if c.Tri {
			r.gj(c, ti, "tri+sub", ramp, e, want, gaussJordan.Submatrix{Value: s.M}, gaussJordan.UpperTriangular{Value: true})
		}
	}
	r.note = nil
}

// ---------------------------------------------------------------- backSubstitution.Run

func (r *reporter) c04BackSubstitution(c *MatCase, ti tinfo) {
	full := expectFull(c)
	n, t := c.N, ti.t
	names, bs := rhsList(n)
	for q := range bs {
		var want []float64
		if full.sing == "none" {
			switch names[q] {
			case "ones":
				want = ratV(c.Sol[0])
			case "ramp":
				want = ratV(c.Sol[1])
			default:
				want = column(full.want, q-2)
			}
		}
		run := func(opts string, args ...interface{}) {
			a := mkMatrix(t, c.A)
			b := mkVector(t, bs[q])
			var res Vector
			o := call(func() error {
				var err error
				res, err = backSubstitution.Run(a, b, args...)
				return err
			})
			r.note = vh.M{"rhs": bs[q]}
			r.judgeV("backSubstitution", ti.name, opts, nil, o, res, want, full.kappa, full.sing, ti.tol)
			r.note = nil
		}
		run("default")
		// in-place solves: the result buffer is the right-hand side itself; the
		// matrix buffer is the matrix itself
		{
			a := mkMatrix(t, c.A)
			b := mkVector(t, bs[q])
			var res Vector
			o := call(func() error {
				var err error
				res, err = backSubstitution.Run(a, b, &backSubstitution.InSitu{X: b})
				return err
			})
			r.note = vh.M{"rhs": bs[q]}
			r.judgeV("backSubstitution", ti.name, "insitu_x_is_b", nil, o, res, want, full.kappa, full.sing, ti.tol)
			a = mkMatrix(t, c.A)
			b = mkVector(t, bs[q])
			o = call(func() error {
				var err error
				res, err = backSubstitution.Run(a, b, &backSubstitution.InSitu{A: a, X: b})
				return err
			})
			r.judgeV("backSubstitution", ti.name, "insitu_a_is_input+x_is_b", nil, o, res, want, full.kappa, full.sing, ti.tol)
			r.note = nil
		}
		run("insitu_x_dirty", &backSubstitution.InSitu{X: dirtyVector(t, n), T: junkScalar(t, 3)})
		run("insitu_a_dirty", &backSubstitution.InSitu{A: dirtyMatrix(t, n)})
	}
}

// ---------------------------------------------------------------- determinant.Run

func (r *reporter) c04Determinant(c *MatCase, ti tinfo) {
	n, t := c.N, ti.t
	// magnitude of the terms of the expansion (all intermediate values are small integers)
	rowprod := 1.0
	for i := 0; i < n; i++ {
		s := 0.0
		for j := 0; j < n; j++ {
			s += math.Abs(float64(c.A[i][j]))
		}
		rowprod *= math.Max(s, 1)
	}
	judge := func(opts string, o outcome, res ConstScalar, want, tol float64) {
		r.nchecks++
		if o.loud() {
			r.mismatch("determinant", ti.name, opts, "error_on_regular", nil, vh.M{"expected": want, "observed": o.String()})
			return
		}
		if res == nil {
			r.mismatch("determinant", ti.name, opts, "nil_result", nil, vh.M{"expected": want})
			return
		}
		got := res.GetFloat64()
		if !(math.Abs(got-want) <= tol) {
			r.mismatch("determinant", ti.name, opts, "value", nil, vh.M{"expected": want, "observed": jsonNum(got), "tol": tol})
		}
	}
	run := func(opts string, want, tol float64, args ...interface{}) {
		a := mkMatrix(t, c.A)
		var res Scalar
		o := call(func() error {
			var err error
			res, err = determinant.Run(a, args...)
			return err
		})
		judge(opts, o, res, want, tol)
	}
	det := float64(c.Det)
	run("default", det, ti.tol*(1+math.Abs(det)+rowprod))
	if c.Spd {
		kappa := c.Kap.F()
		pd := determinant.PositiveDefinite{Value: true}
		ls := determinant.LogScale{Value: true}
		tolDet := ti.tol * (1 + math.Abs(det)) * kappa
		logdet := math.Log(det) // the term ln(Det) of the specification, Det exact
		tolLog := ti.tol * (1 + math.Abs(logdet)) * kappa
		run("pd", det, tolDet, pd)
		run("pd+log", logdet, tolLog, pd, ls)
		fresh := func() *determinant.InSitu {
			return &determinant.InSitu{Cholesky: cholesky.InSitu{L: NullDenseMatrix(t, n, n), S: NullScalar(t), T: NullScalar(t)}}
		}
		dirty := func() *determinant.InSitu {
			return &determinant.InSitu{Cholesky: cholesky.InSitu{L: dirtyMatrix(t, n), S: junkScalar(t, 1), T: junkScalar(t, 2)}}
		}
		run("pd+insitu_fresh", det, tolDet, pd, fresh())
		run("pd+insitu_dirty", det, tolDet, pd, dirty())
		run("pd+log+insitu_dirty", logdet, tolLog, pd, ls, dirty())
		is := &determinant.InSitu{}
		run("pd+insitu_reuse", det, tolDet, pd, is)
		run("pd+insitu_reuse", det, tolDet, pd, is)
		run("pd+log+insitu_reuse", logdet, tolLog, pd, ls, is)
	}
}
