package main

// C04 option space beyond plain buffers (third seeding wave):
//   * work space that holds NON-FINITE values (NaN/Inf junk, or what a
//     previous, correctly rejected call on a structurally singular matrix
//     left behind in the SAME caller-supplied InSitu),
//   * buffers / operands / results that are WINDOWS (Slice views, also
//     transposed) of larger matrices, with the frame condition that cells
//     outside the window are unchanged,
//   * scaled families whose determinant is outside the floating-point range
//     (spec/LinSolve.tla, "scaled families").

import (
	"math"

	. "github.com/pbenner/autodiff"
	"github.com/pbenner/autodiff/algorithm/backSubstitution"
	"github.com/pbenner/autodiff/algorithm/cholesky"
	"github.com/pbenner/autodiff/algorithm/determinant"
	"github.com/pbenner/autodiff/algorithm/gaussJordan"
	"github.com/pbenner/autodiff/algorithm/matrixInverse"
	"verifharness/vh"
)

func nonFinite(k int) float64 {
	switch k % 3 {
	case 0:
		return math.NaN()
	case 1:
		return math.Inf(1)
	}
	return math.Inf(-1)
}

func nanMatrix(t ScalarType, n int) Matrix {
	m := NullDenseMatrix(t, n, n)
	for i := 0; i < n; i++ {
		for j := 0; j < n; j++ {
			m.At(i, j).SetFloat64(nonFinite(i*n + j))
		}
	}
	return m
}

func nanVector(t ScalarType, n int) Vector {
	v := NullDenseVector(t, n)
	for i := 0; i < n; i++ {
		v.At(i).SetFloat64(nonFinite(i + 1))
	}
	return v
}

// PriorSingular(n) of the specification: all ones (equal rows), [[0]] for n = 1
func priorSingular(t ScalarType, n int) Matrix {
	m := NullDenseMatrix(t, n, n)
	for i := 0; i < n; i++ {
		for j := 0; j < n; j++ {
			if n > 1 {
				m.At(i, j).SetFloat64(1)
			}
		}
	}
	return m
}

func (r *reporter) c04History(c *MatCase, ti tinfo) {
	n, t := c.N, ti.t
	full := expectFull(c)
	// ---- matrixInverse
	r.inverse(c, ti, "insitu_nonfinite", nil, full,
		&matrixInverse.InSitu{Id: nanMatrix(t, n), A: nanMatrix(t, n), B: nanVector(t, n)})
	{
		is := &matrixInverse.InSitu{}
		call(func() error { _, err := matrixInverse.Run(priorSingular(t, n), is); return err })
		r.inverse(c, ti, "insitu_after_singular", nil, full, is)
	}
	if c.Tri {
		ut := matrixInverse.UpperTriangular{Value: true}
		r.inverse(c, ti, "tri+insitu_nonfinite", nil, full, ut,
			&matrixInverse.InSitu{Id: nanMatrix(t, n), A: nanMatrix(t, n), B: nanVector(t, n)})
		is := &matrixInverse.InSitu{}
		call(func() error { _, err := matrixInverse.Run(NullDenseMatrix(t, n, n), ut, is); return err })
		r.inverse(c, ti, "tri+insitu_after_singular", nil, full, ut, is)
	}
	if c.Spd {
		pd := matrixInverse.PositiveDefinite{Value: true}
		r.inverse(c, ti, "pd+insitu_nonfinite", nil, full, pd, &matrixInverse.InSitu{
			Id: nanMatrix(t, n), B: nanVector(t, n),
			Cholesky: cholesky.InSitu{L: nanMatrix(t, n), S: NewScalar(t, math.NaN()), T: NewScalar(t, math.Inf(1))}})
		is := &matrixInverse.InSitu{}
		call(func() error { _, err := matrixInverse.Run(priorSingular(t, n), pd, is); return err })
		r.inverse(c, ti, "pd+insitu_after_singular", nil, full, pd, is)
	}
	// ---- backSubstitution
	if c.Tri {
		names, bs := rhsList(n)
		q := 1 // ramp
		var want []float64
		if full.sing == "none" {
			want = ratV(c.Sol[1])
		}
		_ = names
		run := func(opts string, is *backSubstitution.InSitu) {
			var res Vector
			o := call(func() error {
				var err error
				res, err = backSubstitution.Run(mkMatrix(t, c.A), mkVector(t, bs[q]), is)
				return err
			})
			r.note = vh.M{"rhs": bs[q]}
			r.judgeV("backSubstitution", ti.name, opts, nil, o, res, want, full.kappa, full.sing, ti.tol)
			r.note = nil
		}
		run("insitu_nonfinite", &backSubstitution.InSitu{X: nanVector(t, n), A: nanMatrix(t, n), T: NewScalar(t, math.NaN())})
		is := &backSubstitution.InSitu{}
		call(func() error {
			_, err := backSubstitution.Run(NullDenseMatrix(t, n, n), mkVector(t, bs[q]), is)
			return err
		})
		run("insitu_after_singular", is)
	}
	// ---- determinant (Cholesky work space)
	if c.Spd {
		kappa := c.Kap.F()
		det := float64(c.Det)
		pd := determinant.PositiveDefinite{Value: true}
		run := func(opts string, want float64, args ...interface{}) {
			var res Scalar
			o := call(func() error {
				var err error
				res, err = determinant.Run(mkMatrix(t, c.A), args...)
				return err
			})
			r.nchecks++
			if o.loud() || res == nil {
				r.mismatch("determinant", ti.name, opts, "error_on_regular", nil, vh.M{"expected": want, "observed": o.String()})
				return
			}
			if got := res.GetFloat64(); !(math.Abs(got-want) <= ti.tol*(1+math.Abs(want))*kappa) {
				r.mismatch("determinant", ti.name, opts, "value", nil, vh.M{"expected": want, "observed": jsonNum(got)})
			}
		}
		nf := func() *determinant.InSitu {
			return &determinant.InSitu{Cholesky: cholesky.InSitu{L: nanMatrix(t, n), S: NewScalar(t, math.NaN()), T: NewScalar(t, math.Inf(-1))}}
		}
		run("pd+insitu_nonfinite", det, pd, nf())
		run("pd+log+insitu_nonfinite", math.Log(det), pd, determinant.LogScale{Value: true}, nf())
		is := &determinant.InSitu{}
		call(func() error { _, err := determinant.Run(priorSingular(t, n), pd, is); return err })
		run("pd+insitu_after_singular", det, pd, is)
	}
}

// ---------------------------------------------------------------- windows

// a window of size rows x cols inside a larger junk-filled matrix; tr: the
// window is additionally transposed (the parent is then cols x rows inside)
type window struct {
	parent Matrix
	view   Matrix
	r0, c0 int
	rows   int
	cols   int
	tr     bool
	before [][]float64
}

func newWindow(t ScalarType, rows, cols int, tr bool) *window {
	w := &window{r0: 1, c0: 2, rows: rows, cols: cols, tr: tr}
	pr, pc := rows, cols
	if tr {
		pr, pc = cols, rows
	}
	w.parent = NullDenseMatrix(t, pr+3, pc+4)
	R, C := w.parent.Dims()
	for i := 0; i < R; i++ {
		for j := 0; j < C; j++ {
			w.parent.At(i, j).SetFloat64(junk(i*C + j + 3))
		}
	}
	w.view = w.parent.Slice(w.r0, w.r0+pr, w.c0, w.c0+pc)
	if tr {
		w.view = w.view.T()
	}
	return w
}

func (w *window) snapshot() { w.before = matVals(w.parent) }

// cells of the parent outside the window must be what they were
func (w *window) frameOK() (bool, int, int) {
	now := matVals(w.parent)
	pr, pc := w.rows, w.cols
	if w.tr {
		pr, pc = w.cols, w.rows
	}
	for i := range now {
		for j := range now[i] {
			inside := i >= w.r0 && i < w.r0+pr && j >= w.c0 && j < w.c0+pc
			if inside {
				continue
			}
			a, b := now[i][j], w.before[i][j]
			if !(a == b || (math.IsNaN(a) && math.IsNaN(b))) {
				return false, i, j
			}
		}
	}
	return true, 0, 0
}

func setView(m Matrix, vals func(i, j int) float64) {
	r, c := m.Dims()
	for i := 0; i < r; i++ {
		for j := 0; j < c; j++ {
			m.At(i, j).SetFloat64(vals(i, j))
		}
	}
}

func (r *reporter) frame(op, typ, opts string, ws ...*window) {
	r.nchecks++
	for k, w := range ws {
		if ok, i, j := w.frameOK(); !ok {
			r.mismatch(op, typ, opts, "frame", nil, vh.M{"window": k, "parent_cell": []int{i, j},
				"explanation": "a cell of the parent matrix outside the window handed to the routine was modified"})
			return
		}
	}
}

func (r *reporter) c04Windows(c *MatCase, ti tinfo) {
	n, t := c.N, ti.t
	full := expectFull(c)
	ramp := make([]int64, n)
	for i := range ramp {
		ramp[i] = int64(i + 1)
	}
	var wantB []float64
	if full.sing == "none" {
		wantB = ratV(c.Sol[1])
	}
	for _, tr := range []bool{false, true} {
		suffix := ""
		if tr {
			suffix = "_t"
		}
		// ---- gaussJordan: a, x and b are windows
		{
			wa := newWindow(t, n, n, tr)
			wx := newWindow(t, n, n, tr)
			setView(wa.view, func(i, j int) float64 { return float64(c.A[i][j]) })
			setView(wx.view, func(i, j int) float64 {
				if i == j {
					return 1
				}
				return 0
			})
			bp := dirtyVector(t, n+5)
			bv := bp.Slice(2, 2+n)
			for i := 0; i < n; i++ {
				bv.At(i).SetFloat64(float64(ramp[i]))
			}
			bBefore := vecVals(bp)
			wa.snapshot()
			wx.snapshot()
			o := call(func() error { return gaussJordan.Run(wa.view, wx.view, bv) })
			opts := "window" + suffix
			r.note = vh.M{"rhs": ramp}
			r.judgeM("gaussJordan", ti.name, opts, vh.M{"part": "x"}, o, wx.view, full, ti.tol, n)
			r.judgeV("gaussJordan", ti.name, opts, vh.M{"part": "b"}, o, bv, wantB, full.kappa, full.sing, ti.tol)
			r.note = nil
			r.frame("gaussJordan", ti.name, opts, wa, wx)
			r.nchecks++
			bAfter := vecVals(bp)
			for i := range bAfter {
				if (i < 2 || i >= 2+n) && bAfter[i] != bBefore[i] {
					r.mismatch("gaussJordan", ti.name, opts, "frame", nil, vh.M{"vector_cell": i})
					break
				}
			}
		}
		// ---- matrixInverse: input and the work space Id, A, B are windows
		{
			win := newWindow(t, n, n, tr)
			wid := newWindow(t, n, n, tr)
			wwa := newWindow(t, n, n, tr)
			setView(win.view, func(i, j int) float64 { return float64(c.A[i][j]) })
			bp := dirtyVector(t, n+3)
			for _, w := range []*window{win, wid, wwa} {
				w.snapshot()
			}
			var res Matrix
			o := call(func() error {
				var err error
				res, err = matrixInverse.Run(win.view, &matrixInverse.InSitu{Id: wid.view, A: wwa.view, B: bp.Slice(1, 1+n)})
				return err
			})
			opts := "insitu_window" + suffix
			r.judgeM("inverse", ti.name, opts, nil, o, res, full, ti.tol, n)
			r.frame("inverse", ti.name, opts, win, wid, wwa)
			// the input is read-only here (a separate work matrix was supplied)
			r.nchecks++
			if ok, _, _ := cmpM(matVals(win.view), intM(c.A), func(float64) float64 { return 0 }); !ok {
				r.mismatch("inverse", ti.name, opts, "input_changed", nil, vh.M{})
			}
		}
		if c.Tri {
			// ---- backSubstitution: matrix, right-hand side and result buffer are windows
			wa := newWindow(t, n, n, false) // a transposed upper triangular matrix is lower triangular: not transposed here
			setView(wa.view, func(i, j int) float64 { return float64(c.A[i][j]) })
			bp := dirtyVector(t, n+4)
			bv := bp.Slice(1, 1+n)
			for i := 0; i < n; i++ {
				bv.At(i).SetFloat64(float64(ramp[i]))
			}
			xp := dirtyVector(t, n+6)
			wa.snapshot()
			var res Vector
			o := call(func() error {
				var err error
				res, err = backSubstitution.Run(wa.view, bv, &backSubstitution.InSitu{X: xp.Slice(3, 3+n)})
				return err
			})
			if !tr {
				r.note = vh.M{"rhs": ramp}
				r.judgeV("backSubstitution", ti.name, "insitu_window", nil, o, res, wantB, full.kappa, full.sing, ti.tol)
				r.note = nil
				r.frame("backSubstitution", ti.name, "insitu_window", wa)
			}
		}
	}
}

// ---------------------------------------------------------------- scaled families

type SMatCase struct {
	K        string    `json:"k"`
	Fam      string    `json:"fam"`
	N        int       `json:"n"`
	Idx      int64     `json:"idx"`
	Base     [][]int64 `json:"base"`
	Sexp     int       `json:"sexp"`
	LogTerms [][]int64 `json:"logterms"`
	InvNum   [][]int64 `json:"invnum"`
	InvDen   int64     `json:"invden"`
	Kap      Rat       `json:"kap"`
}

func (r *reporter) c04Scaled(c *SMatCase) {
	n := c.N
	af := make([][]float64, n)
	inv := make([][]float64, n)
	for i := 0; i < n; i++ {
		af[i] = make([]float64, n)
		inv[i] = make([]float64, n)
		for j := 0; j < n; j++ {
			af[i][j] = math.Ldexp(float64(c.Base[i][j]), c.Sexp)
			inv[i][j] = math.Ldexp(float64(c.InvNum[i][j])/float64(c.InvDen), -c.Sexp)
		}
	}
	// ln det A = sum count ln(value) + n k ln 2   (the term printed by the specification)
	logdet := float64(n) * float64(c.Sexp) * math.Ln2
	for _, tc := range c.LogTerms {
		logdet += float64(tc[1]) * math.Log(float64(tc[0]))
	}
	kappa := c.Kap.F()
	extra := vh.M{"family": "scaled"}
	for _, ti := range allTypes {
		t := ti.t
		pd := determinant.PositiveDefinite{Value: true}
		ls := determinant.LogScale{Value: true}
		run := func(opts string, mustWork bool, args ...interface{}) {
			var res Scalar
			o := call(func() error {
				var err error
				res, err = determinant.Run(mkMatrixF(t, af), args...)
				return err
			})
			r.nchecks++
			if o.loud() || res == nil {
				if mustWork {
					r.mismatch("determinant", ti.name, opts, "error_on_regular", extra, vh.M{"expected": logdet, "observed": o.String()})
				} else {
					r.count("scaled_logdet_refused_without_pd")
				}
				return
			}
			got := res.GetFloat64()
			if !(math.Abs(got-logdet) <= ti.tol*(1+math.Abs(logdet))*kappa) {
				r.mismatch("determinant", ti.name, opts, "value", extra,
					vh.M{"expected": logdet, "observed": jsonNum(got), "n": n, "sexp": c.Sexp})
			}
		}
		run("pd+log", true, pd, ls)
		run("pd+log+insitu_dirty", true, pd, ls,
			&determinant.InSitu{Cholesky: cholesky.InSitu{L: dirtyMatrix(t, n), S: junkScalar(t, 1), T: junkScalar(t, 2)}})
		// LogScale without PositiveDefinite: the library may refuse (documented panic); if it answers, the answer must be right
		run("log", false, ls)
		// the inverse is representable: Gauss-Jordan and Cholesky paths.  The
		// elimination forms products of two entries before it divides, so for
		// the 32-bit types the inverse is only demanded where the square of an
		// entry stays inside the exponent range (stated as a limit in docs/C04.md)
		if ti.u > 1e-10 && 2*iabs(c.Sexp)+10 > 126 {
			r.count("scaled_inverse_skipped_exponent_range:" + ti.name)
			continue
		}
		for _, cfg := range []struct {
			opts string
			args []interface{}
		}{
			{"default", nil},
			{"pd", []interface{}{matrixInverse.PositiveDefinite{Value: true}}},
		} {
			var res Matrix
			o := call(func() error {
				var err error
				res, err = matrixInverse.Run(mkMatrixF(t, af), cfg.args...)
				return err
			})
			r.judgeM("inverse", ti.name, cfg.opts, extra, o, res, expectInv{inv, kappa, "none"}, ti.tol, n)
		}
	}
}

func iabs(x int) int {
	if x < 0 {
		return -x
	}
	return x
}
