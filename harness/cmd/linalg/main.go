// Conformance driver for the linear-algebra properties C04 and C06.
//
//	linalg replay <c04|c06> <cases.ndjson> <results.ndjson>
//	    runs the REAL routines (matrixInverse, gaussJordan, backSubstitution,
//	    determinant, cholesky, MdotM, Jacobian/Hessian helpers) on every case
//	    printed by TLC from spec/LinSolve.tla, spec/GaussJordanPerm.tla and
//	    spec/MatrixCalculus.tla and compares with the exact rationals /
//	    derivative tables of the specification.  Go only interprets the cases.
//	linalg record <trace.ndjson> <ncases>
//	    seeded random larger matrices (n = 5..8) through the routines; one event
//	    per call with input, outcome and float64 residual booleans, validated
//	    afterwards by spec/LinSolveTrace.tla.
package main

import (
	"encoding/json"
	"fmt"
	"os"
	"time"

	"verifharness/vh"
)

func replay(args []string) {
	if len(args) < 3 {
		vh.Fatal("usage: linalg replay c04|c06 cases results")
	}
	prop := args[0]
	out := vh.NewOut(args[2])
	defer out.Close()
	r := newReporter(out, prop)
	wd := vh.NewWatchdog(30*time.Second, out, vh.M{"engine": "linalg", "op": "any", "type": "any", "opts": "any"})
	ncases := 0
	kinds := map[string]int{}
	err := vh.EachLine(args[1], func(line []byte) error {
		var head struct {
			K string `json:"k"`
		}
		if e := json.Unmarshal(line, &head); e != nil {
			return fmt.Errorf("bad case: %v: %.200s", e, line)
		}
		r.raw = json.RawMessage(append([]byte{}, line[:len(line)-boolToInt(line[len(line)-1] == '\n')]...))
		ncases++
		kinds[head.K]++
		wd.Begin(r.raw)
		defer wd.End()
		switch head.K {
		case "mat":
			var c MatCase
			if e := json.Unmarshal(line, &c); e != nil {
				return fmt.Errorf("bad mat case: %v: %.200s", e, line)
			}
			if prop == "c04" {
				r.c04Case(&c)
			} else {
				r.c06MatCase(&c)
			}
		case "gmat":
			var c GMatCase
			if e := json.Unmarshal(line, &c); e != nil {
				return fmt.Errorf("bad gmat case: %v: %.200s", e, line)
			}
			if prop == "c04" {
				r.c04Graded(&c)
			}
		case "smat":
			var c SMatCase
			if e := json.Unmarshal(line, &c); e != nil {
				return fmt.Errorf("bad smat case: %v: %.200s", e, line)
			}
			if prop == "c04" {
				r.c04Scaled(&c)
			}
		case "dmat":
			var c DMatCase
			if e := json.Unmarshal(line, &c); e != nil {
				return fmt.Errorf("bad dmat case: %v: %.200s", e, line)
			}
			r.c06DMat(&c)
		case "dspd":
			var c DSpdCase
			if e := json.Unmarshal(line, &c); e != nil {
				return fmt.Errorf("bad dspd case: %v: %.200s", e, line)
			}
			r.c06DSpd(&c)
		case "poly":
			var c PolyCase
			if e := json.Unmarshal(line, &c); e != nil {
				return fmt.Errorf("bad poly case: %v: %.200s", e, line)
			}
			r.c06Poly(&c)
		default:
			return fmt.Errorf("unknown case kind %q", head.K)
		}
		return nil
	})
	if err != nil {
		vh.Fatal(err)
	}
	vh.Summary(out, vh.M{"cases": ncases, "kinds": kinds, "checks": r.nchecks, "mismatches": r.nmis, "counts": r.counts})
}

func boolToInt(b bool) int {
	if b {
		return 1
	}
	return 0
}

func main() {
	if len(os.Args) < 2 {
		vh.Fatal("usage: linalg replay|record ...")
	}
	switch os.Args[1] {
	case "replay":
		replay(os.Args[2:])
	case "record":
		record(os.Args[2:])
	case "concurrent":
		concurrent(os.Args[2:])
	default:
		vh.Fatal("unknown sub-command", os.Args[1])
	}
}
