package main

// Graded family (spec/LinSolve.tla, section "graded family"): matrices printed
// symbolically as mantissa * 2^exponent, A = B0 + E with tiny E.  The
// specification proves (perturbation lemma, hypothesis checked by TLC) that
// A^-1 equals the exact Inv(B0) up to slack = 2 ||B0^-1||^2 ||E|| and that
// kappa(A) <= 2 kappa(B0).  The driver builds A exactly (powers of two) and
// checks the values against Inv(B0) / Solve(B0, b) and the defining equations
// A X = I, A x = b themselves.

import (
	"math"

	. "github.com/pbenner/autodiff"
	"github.com/pbenner/autodiff/algorithm/gaussJordan"
	"github.com/pbenner/autodiff/algorithm/matrixInverse"
	"verifharness/vh"
)

type GMatCase struct {
	K    string    `json:"k"`
	Fam  string    `json:"fam"`
	N    int       `json:"n"`
	Idx  int64     `json:"idx"`
	G    int       `json:"g"`
	M    [][]int64 `json:"m"`
	E    [][]int   `json:"e"`
	B0   [][]int64 `json:"b0"`
	Det  int64     `json:"det"`
	Inv  [][]Rat   `json:"inv"`
	Kap  Rat       `json:"kap"`
	Sol  [][]Rat   `json:"sol"`
	Ninv Rat       `json:"ninv"`
	Esum int64     `json:"esum"`
	Emax int       `json:"emax"`
}

func (c *GMatCase) values() [][]float64 {
	a := make([][]float64, c.N)
	for i := range a {
		a[i] = make([]float64, c.N)
		for j := range a[i] {
			a[i][j] = math.Ldexp(float64(c.M[i][j]), c.E[i][j]) // exact
		}
	}
	return a
}

func mkMatrixF(t ScalarType, a [][]float64) Matrix {
	n := len(a)
	m := NullDenseMatrix(t, n, n)
	for i := 0; i < n; i++ {
		for j := 0; j < n; j++ {
			m.At(i, j).SetFloat64(a[i][j])
		}
	}
	return m
}

func (r *reporter) c04Graded(c *GMatCase) {
	n := c.N
	af := c.values()
	kappa := 2 * c.Kap.F() // kappa(A) <= 2 kappa(B0)
	slack := 2 * c.Ninv.F() * c.Ninv.F() * math.Ldexp(float64(c.Esum), c.Emax)
	inv := ratM(c.Inv)
	for _, ti := range allTypes {
		tol := func(x float64) float64 { return ti.tol*(1+math.Abs(x))*kappa + slack }
		values := func(op, opts string, o outcome, res ConstMatrix) [][]float64 {
			r.nchecks++
			if o.loud() || res == nil {
				r.mismatch(op, ti.name, opts, "error_on_regular", vh.M{"family": "graded"}, vh.M{"observed": o.String(), "kappa_bound": kappa})
				return nil
			}
			got := matVals(res)
			if ok, i, j := cmpM(got, inv, tol); !ok {
				r.mismatch(op, ti.name, opts, "value", vh.M{"family": "graded"},
					vh.M{"expected": inv, "observed": jsonVals(got), "at": []int{i, j}, "kappa_bound": kappa, "slack": slack})
				return nil
			}
			// the defining equation itself: A X = I
			r.nchecks++
			if !residMTol(af, got, ti.tol) {
				r.mismatch(op, ti.name, opts, "residual", vh.M{"family": "graded"},
					vh.M{"observed": jsonVals(got), "kappa_bound": kappa})
				return nil
			}
			return got
		}
		// matrixInverse
		for _, cfg := range []struct {
			opts string
			args func() []interface{}
		}{
			{"default", func() []interface{} { return nil }},
			{"insitu_dirty", func() []interface{} {
				return []interface{}{&matrixInverse.InSitu{Id: dirtyMatrix(ti.t, n), A: dirtyMatrix(ti.t, n), B: dirtyVector(ti.t, n)}}
			}},
		} {
			a := mkMatrixF(ti.t, af)
			var res Matrix
			o := call(func() error {
				var err error
				res, err = matrixInverse.Run(a, cfg.args()...)
				return err
			})
			values("inverse", cfg.opts, o, res)
		}
		// gaussJordan with right-hand sides ones and ramp
		for q, name := range []string{"ones", "ramp"} {
			b := make([]int64, n)
			for i := range b {
				if q == 0 {
					b[i] = 1
				} else {
					b[i] = int64(i + 1)
				}
			}
			r.note = vh.M{"rhs": name}
			a := mkMatrixF(ti.t, af)
			x := mkIdentity(ti.t, n)
			bv := mkVector(ti.t, b)
			o := call(func() error { return gaussJordan.Run(a, x, bv) })
			if values("gaussJordan", "default", o, x) != nil {
				r.nchecks++
				got := vecVals(bv)
				want := ratV(c.Sol[q])
				if ok, i := cmpV(got, want, tol); !ok {
					r.mismatch("gaussJordan", ti.name, "default", "value", vh.M{"family": "graded", "part": "b"},
						vh.M{"expected": want, "observed": jsonVec(got), "at": i, "kappa_bound": kappa})
				} else if !residVTol(af, got, b, ti.tol) {
					r.mismatch("gaussJordan", ti.name, "default", "residual", vh.M{"family": "graded", "part": "b"},
						vh.M{"observed": jsonVec(got)})
				}
			}
			r.note = nil
		}
	}
}

// max |A X - I| <= scale n max(1, ||A|| ||X||)
func residMTol(a, x [][]float64, scale float64) bool {
	n := len(a)
	bound := scale * float64(n) * math.Max(1, normInf(a)*normInf(x))
	for i := 0; i < n; i++ {
		for j := 0; j < n; j++ {
			s := 0.0
			for k := 0; k < n; k++ {
				s += a[i][k] * x[k][j]
			}
			if i == j {
				s -= 1
			}
			if !(math.Abs(s) <= bound) {
				return false
			}
		}
	}
	return true
}

func residVTol(a [][]float64, x []float64, b []int64, scale float64) bool {
	n := len(a)
	nx, nb := 0.0, 0.0
	for i := 0; i < n; i++ {
		nx = math.Max(nx, math.Abs(x[i]))
		nb = math.Max(nb, math.Abs(float64(b[i])))
	}
	bound := scale * float64(n) * math.Max(1, normInf(a)*nx+nb)
	for i := 0; i < n; i++ {
		s := -float64(b[i])
		for k := 0; k < n; k++ {
			s += a[i][k] * x[k]
		}
		if !(math.Abs(s) <= bound) {
			return false
		}
	}
	return true
}
