package main

import (
	"encoding/json"
	"fmt"
	"math"

	. "github.com/pbenner/autodiff"
	"verifharness/vh"
)

// ---------------------------------------------------------------- case formats (printed by TLC)

// Rat is an exact rational printed by the specification as [n, d].
type Rat struct{ N, D int64 }

func (r *Rat) UnmarshalJSON(b []byte) error {
	var a []int64
	if err := json.Unmarshal(b, &a); err != nil {
		return err
	}
	if len(a) != 2 || a[1] == 0 {
		return fmt.Errorf("bad rational %s", b)
	}
	r.N, r.D = a[0], a[1]
	return nil
}
func (r Rat) MarshalJSON() ([]byte, error) { return json.Marshal([]int64{r.N, r.D}) }
func (r Rat) F() float64                   { return float64(r.N) / float64(r.D) }

type Sub struct {
	M      []bool  `json:"m"`
	Det    int64   `json:"det"`
	Sing   string  `json:"sing"`
	Prefix bool    `json:"prefix"`
	Devinv [][]Rat `json:"devinv"`
	Inv    [][]Rat `json:"inv"`
	Kap    Rat     `json:"kap"`
	Sol    []Rat   `json:"sol"`
}

type MatCase struct {
	K    string    `json:"k"`
	Fam  string    `json:"fam"`
	N    int       `json:"n"`
	Idx  int64     `json:"idx"`
	A    [][]int64 `json:"a"`
	Det  int64     `json:"det"`
	Sing string    `json:"sing"`
	Tri  bool      `json:"tri"`
	Spd  bool      `json:"spd"`
	Sym  bool      `json:"sym"`
	L    [][]int64 `json:"L"`
	Inv  [][]Rat   `json:"inv"`
	Kap  Rat       `json:"kap"`
	Sol  [][]Rat   `json:"sol"`
	Subs []Sub     `json:"subs"`
}

// ---------------------------------------------------------------- element types

type tinfo struct {
	name string
	t    ScalarType
	tol  float64 // scale of the value tolerance: |x - p/q| <= tol (1+|p/q|) kappa
	u    float64 // unit round-off
	real bool
}

var allTypes = []tinfo{
	{"f64", Float64Type, 1e-9, math.Pow(2, -52), false},
	{"f32", Float32Type, 1e-4, math.Pow(2, -23), false},
	{"r64", Real64Type, 1e-9, math.Pow(2, -52), true},
	{"r32", Real32Type, 1e-4, math.Pow(2, -23), true},
}

func mkMatrix(t ScalarType, a [][]int64) Matrix {
	n := len(a)
	m := NullDenseMatrix(t, n, n)
	for i := 0; i < n; i++ {
		for j := 0; j < n; j++ {
			m.At(i, j).SetFloat64(float64(a[i][j]))
		}
	}
	return m
}

func mkVector(t ScalarType, b []int64) Vector {
	v := NullDenseVector(t, len(b))
	for i := range b {
		v.At(i).SetFloat64(float64(b[i]))
	}
	return v
}

func mkIdentity(t ScalarType, n int) Matrix {
	m := NullDenseMatrix(t, n, n)
	m.SetIdentity()
	return m
}

// buffers a caller might hand in after previous use: arbitrary finite junk
func junk(k int) float64 { return float64((k*37)%11) - 4.75 }

func dirtyMatrix(t ScalarType, n int) Matrix {
	m := NullDenseMatrix(t, n, n)
	for i := 0; i < n; i++ {
		for j := 0; j < n; j++ {
			m.At(i, j).SetFloat64(junk(i*n + j + 1))
		}
	}
	return m
}

func dirtyVector(t ScalarType, n int) Vector {
	v := NullDenseVector(t, n)
	for i := 0; i < n; i++ {
		v.At(i).SetFloat64(junk(3*i + 2))
	}
	return v
}

func matVals(m ConstMatrix) [][]float64 {
	if m == nil {
		return nil
	}
	r, c := m.Dims()
	out := make([][]float64, r)
	for i := 0; i < r; i++ {
		out[i] = make([]float64, c)
		for j := 0; j < c; j++ {
			out[i][j] = m.ConstAt(i, j).GetFloat64()
		}
	}
	return out
}

func vecVals(v ConstVector) []float64 {
	if v == nil {
		return nil
	}
	out := make([]float64, v.Dim())
	for i := range out {
		out[i] = v.ConstAt(i).GetFloat64()
	}
	return out
}

func finite(x float64) bool { return !math.IsNaN(x) && !math.IsInf(x, 0) }

func allFiniteM(a [][]float64) bool {
	for _, r := range a {
		for _, x := range r {
			if !finite(x) {
				return false
			}
		}
	}
	return true
}

func allFiniteV(a []float64) bool {
	for _, x := range a {
		if !finite(x) {
			return false
		}
	}
	return true
}

// JSON cannot carry NaN/Inf: observed values are reported as strings where needed
func jsonVals(a [][]float64) interface{} {
	out := make([][]interface{}, len(a))
	for i, r := range a {
		out[i] = make([]interface{}, len(r))
		for j, x := range r {
			out[i][j] = jsonNum(x)
		}
	}
	return out
}
func jsonVec(a []float64) interface{} {
	out := make([]interface{}, len(a))
	for j, x := range a {
		out[j] = jsonNum(x)
	}
	return out
}
func jsonNum(x float64) interface{} {
	if finite(x) {
		return x
	}
	return fmt.Sprint(x)
}

func ratM(a [][]Rat) [][]float64 {
	out := make([][]float64, len(a))
	for i := range a {
		out[i] = make([]float64, len(a[i]))
		for j := range a[i] {
			out[i][j] = a[i][j].F()
		}
	}
	return out
}
func ratV(a []Rat) []float64 {
	out := make([]float64, len(a))
	for i := range a {
		out[i] = a[i].F()
	}
	return out
}

// ---------------------------------------------------------------- outcome of one call of the library

type outcome struct {
	err   string // returned error
	panic string // recovered panic
}

func (o outcome) loud() bool { return o.err != "" || o.panic != "" }
func (o outcome) class() string {
	if o.panic != "" {
		return "panic"
	}
	if o.err != "" {
		return "error"
	}
	return "ok"
}
func (o outcome) String() string {
	if o.panic != "" {
		return "panic: " + o.panic
	}
	if o.err != "" {
		return "error: " + o.err
	}
	return "ok"
}

func call(f func() error) outcome {
	var o outcome
	o.panic = vh.Try(func() {
		if err := f(); err != nil {
			o.err = err.Error()
			if o.err == "" {
				o.err = "error"
			}
		}
	})
	return o
}

// ---------------------------------------------------------------- reporting

type reporter struct {
	out     *vh.Out
	prop    string
	raw     json.RawMessage // the case being replayed
	perSig  map[string]int
	nmis    int
	nchecks int
	counts  map[string]int
	note    vh.M // context merged into the detail of a mismatch (right-hand side, ...)
}

func newReporter(out *vh.Out, prop string) *reporter {
	return &reporter{out: out, prop: prop, perSig: map[string]int{}, counts: map[string]int{}}
}

// mismatch writes one discrepancy; at most 8 records per signature are written
// (the orchestrator prints one VIOLATION per signature anyway).
func (r *reporter) mismatch(op, typ, opts, what string, extra vh.M, detail vh.M) {
	r.nmis++
	sig := vh.M{"engine": "linalg", "op": op, "type": typ, "opts": opts, "what": what}
	for k, v := range extra {
		sig[k] = v
	}
	b, _ := json.Marshal(sig)
	r.perSig[string(b)]++
	if r.perSig[string(b)] > 8 {
		return
	}
	for k, v := range r.note {
		detail[k] = v
	}
	detail["case"] = r.raw
	detail["op"] = op
	detail["type"] = typ
	detail["opts"] = opts
	vh.Mismatch(r.out, sig, detail)
}

func (r *reporter) count(k string) { r.counts[k]++ }

// cmpM compares an observed matrix with the expected one; tol(x) is the
// admissible absolute error at expected value x.  Returns the first bad entry.
func cmpM(got, want [][]float64, tol func(float64) float64) (bool, int, int) {
	if len(got) != len(want) {
		return false, -1, -1
	}
	for i := range want {
		if len(got[i]) != len(want[i]) {
			return false, i, -1
		}
		for j := range want[i] {
			d := math.Abs(got[i][j] - want[i][j])
			if !(d <= tol(want[i][j])) { // NaN fails
				return false, i, j
			}
		}
	}
	return true, 0, 0
}

func cmpV(got, want []float64, tol func(float64) float64) (bool, int) {
	if len(got) != len(want) {
		return false, -1
	}
	for i := range want {
		d := math.Abs(got[i] - want[i])
		if !(d <= tol(want[i])) {
			return false, i
		}
	}
	return true, 0
}

func tolFn(scale, kappa float64) func(float64) float64 {
	if kappa < 1 {
		kappa = 1
	}
	return func(x float64) float64 { return scale * (1 + math.Abs(x)) * kappa }
}

func maskString(m []bool) string {
	s := ""
	for _, b := range m {
		if b {
			s += "1"
		} else {
			s += "0"
		}
	}
	return s
}
