package main

// Concurrent family (contract: spec/Reentrancy.tla - a routine is a function
// of its arguments and its caller-supplied work space only).
//
//	linalg concurrent <cases.ndjson> <results.ndjson> <goroutines> <rounds>
//
// Every job is (routine, option set, element type, one TLC-generated matrix)
// on the hand-specialised paths (DenseFloat64 gaussJordan / matrixInverse,
// float64 and float32 cholesky in every option combination, positive definite
// determinant and inverse).  The jobs are first run one after the other; then
// <goroutines> goroutines run them at the same time, each on DIFFERENT
// matrices, <rounds> times with shifted assignment.  Every concurrent result
// must equal the sequential one bit for bit.  Built with -race by the check:
// a report of the race detector is a violation as well.

import (
	"encoding/json"
	"fmt"
	"math"
	"strconv"
	"sync"
	"time"

	. "github.com/pbenner/autodiff"
	"github.com/pbenner/autodiff/algorithm/cholesky"
	"github.com/pbenner/autodiff/algorithm/determinant"
	"github.com/pbenner/autodiff/algorithm/gaussJordan"
	"github.com/pbenner/autodiff/algorithm/matrixInverse"
	"verifharness/vh"
)

type job struct {
	op, opts string
	ti       tinfo
	c        *MatCase
	raw      json.RawMessage
	run      func() []uint64
	ref      []uint64
}

func bitsM(o outcome, ms ...ConstMatrix) []uint64 {
	out := []uint64{0}
	if o.loud() {
		out[0] = 1
		return out
	}
	for _, m := range ms {
		if m == nil {
			out = append(out, 2)
			continue
		}
		for _, row := range matVals(m) {
			for _, x := range row {
				out = append(out, math.Float64bits(x))
			}
		}
	}
	return out
}

func eqBits(a, b []uint64) bool {
	if len(a) != len(b) {
		return false
	}
	for i := range a {
		if a[i] != b[i] {
			// all NaNs are one value here
			if math.IsNaN(math.Float64frombits(a[i])) && math.IsNaN(math.Float64frombits(b[i])) {
				continue
			}
			return false
		}
	}
	return true
}

func jobsOf(c *MatCase, raw json.RawMessage) []*job {
	js := []*job{}
	n := c.N
	add := func(op, opts string, ti tinfo, f func() []uint64) {
		js = append(js, &job{op: op, opts: opts, ti: ti, c: c, raw: raw, run: f})
	}
	f64, f32 := allTypes[0], allTypes[1]
	if c.Det != 0 {
		add("gaussJordan", "default", f64, func() []uint64 {
			a, x := mkMatrix(f64.t, c.A), mkIdentity(f64.t, n)
			b := NullDenseVector(f64.t, n)
			for i := 0; i < n; i++ {
				b.At(i).SetFloat64(float64(i + 1))
			}
			o := call(func() error { return gaussJordan.Run(a, x, b) })
			out := bitsM(o, x)
			for _, v := range vecVals(b) {
				out = append(out, math.Float64bits(v))
			}
			return out
		})
		add("inverse", "default", f64, func() []uint64 {
			var res Matrix
			o := call(func() error {
				var err error
				res, err = matrixInverse.Run(mkMatrix(f64.t, c.A))
				return err
			})
			return bitsM(o, res)
		})
	}
	if c.Sym && n >= 2 {
		for _, ti := range []tinfo{f64, f32} {
			ti := ti
			for _, cfg := range []struct {
				opts string
				args []interface{}
			}{
				{"default", nil},
				{"ldl", []interface{}{cholesky.LDL{Value: true}}},
				{"ldl+forcepd", []interface{}{cholesky.LDL{Value: true}, cholesky.ForcePD{Value: true}}},
			} {
				cfg := cfg
				add("cholesky", cfg.opts, ti, func() []uint64 {
					var l, d Matrix
					o := call(func() error {
						var err error
						l, d, err = cholesky.Run(mkMatrix(ti.t, c.A), cfg.args...)
						return err
					})
					if o.loud() {
						return bitsM(o)
					}
					if cfg.args == nil {
						return bitsM(o, lowerPart(l))
					}
					return bitsM(o, lowerPart(l), diagPart(d))
				})
			}
		}
	}
	if c.Spd {
		add("inverse", "pd", f64, func() []uint64 {
			var res Matrix
			o := call(func() error {
				var err error
				res, err = matrixInverse.Run(mkMatrix(f64.t, c.A), matrixInverse.PositiveDefinite{Value: true})
				return err
			})
			return bitsM(o, res)
		})
		for _, log := range []bool{false, true} {
			log := log
			opts := "pd"
			if log {
				opts = "pd+log"
			}
			add("determinant", opts, f64, func() []uint64 {
				var res Scalar
				o := call(func() error {
					var err error
					res, err = determinant.Run(mkMatrix(f64.t, c.A), determinant.PositiveDefinite{Value: true}, determinant.LogScale{Value: log})
					return err
				})
				if o.loud() || res == nil {
					return []uint64{1}
				}
				return []uint64{0, math.Float64bits(res.GetFloat64())}
			})
		}
	}
	return js
}

func concurrent(args []string) {
	if len(args) < 4 {
		vh.Fatal("usage: linalg concurrent cases results goroutines rounds")
	}
	G, _ := strconv.Atoi(args[2])
	rounds, _ := strconv.Atoi(args[3])
	out := vh.NewOut(args[1])
	defer out.Close()
	wd := vh.NewWatchdog(120*time.Second, out, vh.M{"engine": "linalg", "op": "concurrent", "type": "any", "opts": "concurrent"})
	jobs := []*job{}
	ncases := 0
	err := vh.EachLine(args[0], func(line []byte) error {
		var head struct {
			K string `json:"k"`
		}
		if e := json.Unmarshal(line, &head); e != nil {
			return fmt.Errorf("bad case: %v", e)
		}
		if head.K != "mat" || len(jobs) > 40000 {
			return nil
		}
		c := &MatCase{}
		if e := json.Unmarshal(line, c); e != nil {
			return e
		}
		if c.N < 2 {
			return nil
		}
		ncases++
		jobs = append(jobs, jobsOf(c, json.RawMessage(append([]byte{}, line...)))...)
		return nil
	})
	if err != nil {
		vh.Fatal(err)
	}
	// sequential reference
	for _, j := range jobs {
		j.ref = j.run()
	}
	// interleave the jobs so that neighbouring goroutines hold different matrices and routines
	nmis := 0
	perOp := map[string]int{}
	var mu sync.Mutex
	wd.Begin(vh.M{"jobs": len(jobs), "goroutines": G, "rounds": rounds})
	for round := 0; round < rounds; round++ {
		var wg sync.WaitGroup
		start := make(chan struct{})
		for g := 0; g < G; g++ {
			wg.Add(1)
			go func(g int) {
				defer wg.Done()
				<-start
				for k := (g + round) % G; k < len(jobs); k += G {
					j := jobs[k]
					got := j.run()
					if !eqBits(got, j.ref) {
						mu.Lock()
						nmis++
						key := j.op + "/" + j.opts + "/" + j.ti.name
						perOp[key]++
						if perOp[key] <= 5 {
							vh.Mismatch(out, vh.M{"engine": "linalg", "op": j.op, "type": j.ti.name, "opts": "concurrent",
								"what": "not_reentrant", "how": "wrong_result"},
								vh.M{"case": j.raw, "routine_opts": j.opts, "goroutines": G, "round": round,
									"explanation": "result of a call running concurrently with calls on other matrices differs bit-wise from the sequential result"})
						}
						mu.Unlock()
					}
				}
			}(g)
		}
		close(start)
		wg.Wait()
	}
	wd.End()
	vh.Summary(out, vh.M{"cases": ncases, "jobs": len(jobs), "goroutines": G, "rounds": rounds, "mismatches": nmis, "per_routine": perOp})
}
