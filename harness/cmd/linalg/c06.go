package main

// C06: derivatives through linear algebra (tables printed by
// spec/MatrixCalculus.tla), values on magic-scalar matrices against values on
// float matrices, hand-specialised float paths against the generic path,
// Jacobian/Hessian helpers against polynomial maps differentiated by TLC.

import (
	"encoding/json"
	"math"

	. "github.com/pbenner/autodiff"
	"github.com/pbenner/autodiff/algorithm/backSubstitution"
	"github.com/pbenner/autodiff/algorithm/cholesky"
	"github.com/pbenner/autodiff/algorithm/determinant"
	"github.com/pbenner/autodiff/algorithm/gaussJordan"
	"github.com/pbenner/autodiff/algorithm/matrixInverse"
	"verifharness/vh"
)

type DMatCase struct {
	K     string        `json:"k"`
	Fam   string        `json:"fam"`
	N     int           `json:"n"`
	Idx   int64         `json:"idx"`
	A     [][]int64     `json:"a"`
	Det   int64         `json:"det"`
	Tri   bool          `json:"tri"`
	Vars  [][]int       `json:"vars"` // 1-based (row, column)
	Kap   Rat           `json:"kap"`
	Inv   [][]Rat       `json:"inv"`
	Sol   []Rat         `json:"sol"`
	Ddet  []int64       `json:"ddet"`
	D2det [][]int64     `json:"d2det"`
	Dinv  [][][]Rat     `json:"dinv"`
	D2inv [][][][]Rat   `json:"d2inv"`
	Dsola [][]Rat       `json:"dsola"`
	B     [][]int64     `json:"b"`
	C     [][]int64     `json:"c"`
	Dca   [][][]int64   `json:"dca"`
	Dcb   [][][]int64   `json:"dcb"`
	D2c   [][][][]int64 `json:"d2c"`
}

type DSpdCase struct {
	K       string    `json:"k"`
	Fam     string    `json:"fam"`
	N       int       `json:"n"`
	Idx     int64     `json:"idx"`
	A       [][]int64 `json:"a"`
	L       [][]int64 `json:"L"`
	Det     int64     `json:"det"`
	Vars    [][]int   `json:"vars"` // symmetric pairs (p, q), p >= q
	Kap     Rat       `json:"kap"`
	Inv     [][]Rat   `json:"inv"`
	Dlogdet []Rat     `json:"dlogdet"`
	Ddet    []int64   `json:"ddet"`
	Dinv    [][][]Rat `json:"dinv"`
	DL      [][][]Rat `json:"dL"`
}

type PolyTerm struct {
	C int64   `json:"c"`
	E []int64 `json:"e"`
}
type PolyCase struct {
	K       string       `json:"k"`
	N       int          `json:"n"`
	Idx     int64        `json:"idx"`
	F       [][]PolyTerm `json:"f"`
	X       []Rat        `json:"x"`
	PStates []string     `json:"pstates"`
	MStates []string     `json:"mstates"`
	X2      []Rat        `json:"x2"`
	JacI    [][]int64    `json:"jaci"`
	HessI   [][]int64    `json:"hessi"`
	Val     []Rat        `json:"val"`
	Jac     [][]Rat      `json:"jac"`
	Hess    [][]Rat      `json:"hess"`
}

var realTypes = []tinfo{allTypes[2], allTypes[3]}

func intM(a [][]int64) [][]float64 {
	out := make([][]float64, len(a))
	for i := range a {
		out[i] = make([]float64, len(a[i]))
		for j := range a[i] {
			out[i][j] = float64(a[i][j])
		}
	}
	return out
}

// ---------------------------------------------------------------- fast vs generic, real vs float (on "mat" cases)

type pairing struct {
	a, b tinfo
	what string
}

// f64 takes the hand-specialised paths (gaussJordan_optimized, cholesky_float64),
// f32 takes cholesky_float32; r64 / r32 without derivatives run the generic
// scalar-interface code in the same arithmetic.
var pairings = []pairing{
	{allTypes[0], allTypes[2], "fast_vs_generic"},
	{allTypes[1], allTypes[3], "fast_vs_generic"},
}

func (r *reporter) agreeM(op, opts string, p pairing, oa, ob outcome, ma, mb ConstMatrix, kappa float64) {
	r.nchecks++
	r.count("agree:" + op + "/" + opts + ":" + oa.class())
	if oa.loud() != ob.loud() {
		r.mismatch(op, p.a.name+"/"+p.b.name, opts, p.what, vh.M{"diff": "outcome"}, vh.M{"a": oa.String(), "b": ob.String()})
		return
	}
	if oa.loud() || ma == nil || mb == nil {
		return
	}
	va, vb := matVals(ma), matVals(mb)
	if !allFiniteM(va) && !allFiniteM(vb) {
		return
	}
	if ok, i, j := cmpM(va, vb, tolFn(16*p.a.u, kappa)); !ok {
		r.mismatch(op, p.a.name+"/"+p.b.name, opts, p.what, vh.M{"diff": "value"},
			vh.M{"a": jsonVals(va), "b": jsonVals(vb), "at": []int{i, j}, "kappa": kappa})
	}
}

func (r *reporter) agreeV(op, opts string, p pairing, oa, ob outcome, a, b []float64, kappa float64) {
	r.nchecks++
	if oa.loud() != ob.loud() {
		r.mismatch(op, p.a.name+"/"+p.b.name, opts, p.what, vh.M{"diff": "outcome"}, vh.M{"a": oa.String(), "b": ob.String()})
		return
	}
	if oa.loud() || a == nil || b == nil || (!allFiniteV(a) && !allFiniteV(b)) {
		return
	}
	if ok, i := cmpV(a, b, tolFn(16*p.a.u, kappa)); !ok {
		r.mismatch(op, p.a.name+"/"+p.b.name, opts, p.what, vh.M{"diff": "value"},
			vh.M{"a": jsonVec(a), "b": jsonVec(b), "at": i, "kappa": kappa})
	}
}

func (r *reporter) c06MatCase(c *MatCase) {
	n := c.N
	kappa := 1.0
	if c.Det != 0 {
		kappa = c.Kap.F()
	}
	ramp := make([]int64, n)
	for i := range ramp {
		ramp[i] = int64(i + 1)
	}
	for _, p := range pairings {
		// inverse
		inv := func(ti tinfo, args ...interface{}) (outcome, Matrix) {
			a := mkMatrix(ti.t, c.A)
			var res Matrix
			o := call(func() error {
				var err error
				res, err = matrixInverse.Run(a, args...)
				return err
			})
			return o, res
		}
		gj := func(ti tinfo, args ...interface{}) (outcome, Matrix, Vector) {
			a := mkMatrix(ti.t, c.A)
			x := mkIdentity(ti.t, n)
			b := mkVector(ti.t, ramp)
			o := call(func() error { return gaussJordan.Run(a, x, b, args...) })
			return o, x, b
		}
		if c.Det != 0 {
			oa, ma := inv(p.a)
			ob, mb := inv(p.b)
			r.agreeM("inverse", "default", p, oa, ob, ma, mb, kappa)
			oa, xa, ba := gj(p.a)
			ob, xb, bb := gj(p.b)
			r.agreeM("gaussJordan", "default", p, oa, ob, xa, xb, kappa)
			r.agreeV("gaussJordan", "default", p, oa, ob, vecVals(ba), vecVals(bb), kappa)
			if c.Tri {
				oa, xa, ba = gj(p.a, gaussJordan.UpperTriangular{Value: true})
				ob, xb, bb = gj(p.b, gaussJordan.UpperTriangular{Value: true})
				r.agreeM("gaussJordan", "tri", p, oa, ob, xa, xb, kappa)
				r.agreeV("gaussJordan", "tri", p, oa, ob, vecVals(ba), vecVals(bb), kappa)
				bs := func(ti tinfo) (outcome, Vector) {
					var res Vector
					o := call(func() error {
						var err error
						res, err = backSubstitution.Run(mkMatrix(ti.t, c.A), mkVector(ti.t, ramp))
						return err
					})
					return o, res
				}
				o1, v1 := bs(p.a)
				o2, v2 := bs(p.b)
				r.agreeV("backSubstitution", "default", p, o1, o2, vecVals(v1), vecVals(v2), kappa)
			}
		}
		for k := range c.Subs {
			s := &c.Subs[k]
			if s.Det == 0 {
				continue
			}
			sm := gaussJordan.Submatrix{Value: s.M}
			oa, xa, ba := gj(p.a, sm)
			ob, xb, bb := gj(p.b, sm)
			r.agreeM("gaussJordan", "sub", p, oa, ob, xa, xb, s.Kap.F())
			r.agreeV("gaussJordan", "sub", p, oa, ob, vecVals(ba), vecVals(bb), s.Kap.F())
		}
		// determinant (cofactor expansion: exact on these inputs)
		{
			det := func(ti tinfo, args ...interface{}) (outcome, []float64) {
				var res Scalar
				o := call(func() error {
					var err error
					res, err = determinant.Run(mkMatrix(ti.t, c.A), args...)
					return err
				})
				if res == nil {
					return o, nil
				}
				return o, []float64{res.GetFloat64()}
			}
			oa, da := det(p.a)
			ob, db := det(p.b)
			r.agreeV("determinant", "default", p, oa, ob, da, db, math.Max(kappa, 1))
			if c.Spd {
				pd := determinant.PositiveDefinite{Value: true}
				oa, da = det(p.a, pd)
				ob, db = det(p.b, pd)
				r.agreeV("determinant", "pd", p, oa, ob, da, db, kappa)
				oa, da = det(p.a, pd, determinant.LogScale{Value: true})
				ob, db = det(p.b, pd, determinant.LogScale{Value: true})
				r.agreeV("determinant", "pd+log", p, oa, ob, da, db, kappa)
			}
		}
		if c.Sym {
			// every option combination of cholesky.Run on symmetric input, positive
			// definite or not (plain and LDL must then fail alike on both paths,
			// ForcePD modifies the factorisation): specialised float path against the
			// generic path, default / fresh / dirty caller-supplied buffers
			chol := func(ti tinfo, buf int, args ...interface{}) (outcome, Matrix, Matrix) {
				var l, d Matrix
				switch buf {
				case 1:
					args = append(args, &cholesky.InSitu{L: NullDenseMatrix(ti.t, n, n), D: NullDenseMatrix(ti.t, n, n),
						S: NullScalar(ti.t), T: NullScalar(ti.t)})
				case 2:
					args = append(args, &cholesky.InSitu{L: dirtyMatrix(ti.t, n), D: dirtyMatrix(ti.t, n),
						S: junkScalar(ti.t, 7), T: junkScalar(ti.t, 8)})
				}
				o := call(func() error {
					var err error
					l, d, err = cholesky.Run(mkMatrix(ti.t, c.A), args...)
					return err
				})
				return o, l, d
			}
			if c.Spd {
				// the plain factor is also known exactly: it is the integer L of the family
				for _, ti := range []tinfo{p.a, p.b} {
					o, l, _ := chol(ti, 0)
					r.judgeM("cholesky", ti.name, "default", nil, o, l, expectInv{intM(c.L), kappa, "none"}, ti.tol, n)
				}
			}
			for _, cfg := range []struct {
				opts string
				args []interface{}
			}{
				{"default", nil},
				{"forcepd", []interface{}{cholesky.ForcePD{Value: true}}},
				{"ldl", []interface{}{cholesky.LDL{Value: true}}},
				{"ldl+forcepd", []interface{}{cholesky.LDL{Value: true}, cholesky.ForcePD{Value: true}}},
			} {
				for buf, bname := range []string{"", "+insitu_fresh", "+insitu_dirty"} {
					oa, la, da := chol(p.a, buf, cfg.args...)
					ob, lb, db := chol(p.b, buf, cfg.args...)
					lo, hi := lowerPart(la), lowerPart(lb)
					r.agreeM("cholesky", cfg.opts+bname, p, oa, ob, lo, hi, kappa)
					if da != nil && db != nil {
						r.agreeM("cholesky", cfg.opts+bname+"/D", p, oa, ob, diagPart(da), diagPart(db), kappa)
					}
				}
			}
		}
		if c.Sym && n >= 2 {
			// INFORMATION ONLY (never a violation): a symmetric matrix handed over by its
			// lower triangle alone (upper triangle zero).  Nothing in the doc comments says
			// that the upper triangle is ignored, so such input is outside the admissible
			// class of Cholesky/LDL; the counts go to evidence.
			lower := make([][]int64, n)
			for i := range lower {
				lower[i] = make([]int64, n)
				for j := 0; j <= i; j++ {
					lower[i][j] = c.A[i][j]
				}
			}
			for _, cfg := range []struct {
				opts string
				args []interface{}
			}{
				{"default", nil},
				{"ldl", []interface{}{cholesky.LDL{Value: true}}},
				{"ldl+forcepd", []interface{}{cholesky.LDL{Value: true}, cholesky.ForcePD{Value: true}}},
			} {
				run := func(ti tinfo) (outcome, [][]float64) {
					var l Matrix
					o := call(func() error {
						var err error
						l, _, err = cholesky.Run(mkMatrix(ti.t, lower), cfg.args...)
						return err
					})
					if o.loud() || l == nil {
						return o, nil
					}
					return o, matVals(lowerPart(l))
				}
				oa, va := run(p.a)
				ob, vb := run(p.b)
				same := oa.loud() == ob.loud()
				if same && va != nil && vb != nil && (allFiniteM(va) || allFiniteM(vb)) {
					same, _, _ = cmpM(va, vb, tolFn(16*p.a.u, kappa))
				}
				if same {
					r.count("info:lower_triangle_only:" + cfg.opts + ":" + p.a.name + ":agree")
				} else {
					r.count("info:lower_triangle_only:" + cfg.opts + ":" + p.a.name + ":differ")
				}
			}
		}
		if c.Spd {
			oa, ma := inv(p.a, matrixInverse.PositiveDefinite{Value: true})
			ob, mb := inv(p.b, matrixInverse.PositiveDefinite{Value: true})
			r.agreeM("inverse", "pd", p, oa, ob, ma, mb, kappa)
		}
	}
}

// the factor is defined by its lower triangle, D by its diagonal; what a
// caller-supplied buffer held elsewhere is not part of the result
func lowerPart(m Matrix) ConstMatrix {
	if m == nil {
		return nil
	}
	return lowerView{m}
}

type diagView struct{ Matrix }

func (d diagView) ConstAt(i, j int) ConstScalar {
	if i != j {
		return ConstFloat64(0)
	}
	return d.Matrix.ConstAt(i, j)
}
func diagPart(m Matrix) ConstMatrix {
	if m == nil {
		return nil
	}
	return diagView{m}
}

// ---------------------------------------------------------------- derivative tables

func magicAt(m Matrix, i, j int) MagicScalar { return m.(MagicMatrix).MagicAt(i, j) }

// activate the listed entries (1-based positions) of the given matrices, in
// order, as variables 0..; returns the number of variables
func activate(order int, ms []Matrix, vars [][]int, extra []MagicScalar) int {
	list := []MagicScalar{}
	for _, m := range ms {
		for _, v := range vars {
			list = append(list, magicAt(m, v[0]-1, v[1]-1))
		}
	}
	list = append(list, extra...)
	if err := Variables(order, list...); err != nil {
		panic(err)
	}
	return len(list)
}

type dcheck struct {
	r     *reporter
	op    string
	typ   string
	opts  string
	scale float64
}

// first derivatives of a matrix result: want[v][k][l]
func (d dcheck) gradM(res ConstMatrix, off int, want [][][]float64, kappa float64) {
	d.r.nchecks++
	n, m := res.Dims()
	for v := range want {
		for k := 0; k < n; k++ {
			for l := 0; l < m; l++ {
				s := res.ConstAt(k, l)
				if s.GetOrder() < 1 || s.GetN() <= off+v {
					if want[v][k][l] != 0 {
						d.r.mismatch(d.op, d.typ, d.opts, "deriv", vh.M{"order": 1, "diff": "missing"},
							vh.M{"var": v, "at": []int{k, l}, "expected": want[v][k][l], "observed_order": s.GetOrder(), "observed_n": s.GetN()})
						return
					}
					continue
				}
				got := s.GetDerivative(off + v)
				if !(math.Abs(got-want[v][k][l]) <= d.scale*(1+math.Abs(want[v][k][l]))*kappa) {
					d.r.mismatch(d.op, d.typ, d.opts, "deriv", vh.M{"order": 1, "diff": "value"},
						vh.M{"var": v, "at": []int{k, l}, "expected": want[v][k][l], "observed": jsonNum(got), "kappa": kappa})
					return
				}
			}
		}
	}
}

func (d dcheck) gradV(res ConstVector, off int, want [][]float64, kappa float64) {
	d.r.nchecks++
	for v := range want {
		for k := 0; k < res.Dim(); k++ {
			s := res.ConstAt(k)
			if s.GetOrder() < 1 || s.GetN() <= off+v {
				if want[v][k] != 0 {
					d.r.mismatch(d.op, d.typ, d.opts, "deriv", vh.M{"order": 1, "diff": "missing"},
						vh.M{"var": v, "at": k, "expected": want[v][k]})
					return
				}
				continue
			}
			got := s.GetDerivative(off + v)
			if !(math.Abs(got-want[v][k]) <= d.scale*(1+math.Abs(want[v][k]))*kappa) {
				d.r.mismatch(d.op, d.typ, d.opts, "deriv", vh.M{"order": 1, "diff": "value"},
					vh.M{"var": v, "at": k, "expected": want[v][k], "observed": jsonNum(got), "kappa": kappa})
				return
			}
		}
	}
}

// second derivatives of one scalar: want(v, w) over variable indices
func (d dcheck) hess(s ConstScalar, nv int, want func(v, w int) float64, kappa float64, where interface{}) bool {
	if s.GetOrder() < 2 {
		for v := 0; v < nv; v++ {
			for w := 0; w < nv; w++ {
				if want(v, w) != 0 {
					d.r.mismatch(d.op, d.typ, d.opts, "deriv", vh.M{"order": 2, "diff": "missing"},
						vh.M{"vars": []int{v, w}, "at": where, "expected": want(v, w), "observed_order": s.GetOrder()})
					return false
				}
			}
		}
		return true
	}
	for v := 0; v < nv; v++ {
		for w := 0; w < nv; w++ {
			got := s.GetHessian(v, w)
			if !(math.Abs(got-want(v, w)) <= d.scale*(1+math.Abs(want(v, w)))*kappa) {
				d.r.mismatch(d.op, d.typ, d.opts, "deriv", vh.M{"order": 2, "diff": "value"},
					vh.M{"vars": []int{v, w}, "at": where, "expected": want(v, w), "observed": jsonNum(got), "kappa": kappa})
				return false
			}
		}
	}
	return true
}

func rat3(a [][][]Rat) [][][]float64 {
	out := make([][][]float64, len(a))
	for i := range a {
		out[i] = ratM(a[i])
	}
	return out
}
func int3(a [][][]int64) [][][]float64 {
	out := make([][][]float64, len(a))
	for i := range a {
		out[i] = intM(a[i])
	}
	return out
}

func (r *reporter) valuesM(op, typ, opts string, o outcome, res ConstMatrix, want [][]float64, kappa, scale float64, n int) bool {
	return r.judgeM(op, typ, opts, vh.M{"with": "variables"}, o, res, expectInv{want, kappa, "none"}, scale, n) != nil
}

func (r *reporter) c06DMat(c *DMatCase) {
	n := c.N
	V := len(c.Vars)
	kappa := c.Kap.F()
	inv := ratM(c.Inv)
	dinv := rat3(c.Dinv)
	ramp := make([]int64, n)
	rowprod := 1.0
	for i := 0; i < n; i++ {
		ramp[i] = int64(i + 1)
		s := 0.0
		for j := 0; j < n; j++ {
			s += math.Abs(float64(c.A[i][j]))
		}
		rowprod *= math.Max(s, 1)
	}
	for _, ti := range realTypes {
		t := ti.t
		k2 := kappa * kappa
		maxOrder := 1
		if n <= 2 {
			maxOrder = 2
		}
		// ---- inverse
		for order := 1; order <= maxOrder; order++ {
			a := mkMatrix(t, c.A)
			activate(order, []Matrix{a}, c.Vars, nil)
			var res Matrix
			o := call(func() error {
				var err error
				res, err = matrixInverse.Run(a)
				return err
			})
			opts := "order1"
			if order == 2 {
				opts = "order2"
			}
			if !r.valuesM("inverse", ti.name, opts, o, res, inv, kappa, ti.tol, n) {
				continue
			}
			d := dcheck{r, "inverse", ti.name, opts, ti.tol}
			d.gradM(res, 0, dinv, k2)
			if order == 2 {
				r.nchecks++
			loop:
				for k := 0; k < n; k++ {
					for l := 0; l < n; l++ {
						if !d.hess(res.ConstAt(k, l), V, func(v, w int) float64 { return c.D2inv[v][w][k][l].F() }, k2*kappa, []int{k, l}) {
							break loop
						}
					}
				}
			}
		}
		// ---- determinant (cofactor expansion), order 2
		{
			a := mkMatrix(t, c.A)
			activate(2, []Matrix{a}, c.Vars, nil)
			var res Scalar
			o := call(func() error {
				var err error
				res, err = determinant.Run(a)
				return err
			})
			r.nchecks++
			if o.loud() || res == nil {
				r.mismatch("determinant", ti.name, "order2", "error_on_regular", vh.M{"with": "variables"}, vh.M{"observed": o.String()})
			} else if math.Abs(res.GetFloat64()-float64(c.Det)) > ti.tol*(1+math.Abs(float64(c.Det))+rowprod) {
				r.mismatch("determinant", ti.name, "order2", "value", vh.M{"with": "variables"}, vh.M{"expected": c.Det, "observed": jsonNum(res.GetFloat64())})
			} else {
				d := dcheck{r, "determinant", ti.name, "order2", ti.tol}
				ok := true
				for v := 0; v < V && ok; v++ {
					got := res.GetDerivative(v)
					if !(math.Abs(got-float64(c.Ddet[v])) <= ti.tol*(1+math.Abs(float64(c.Ddet[v]))+rowprod)) {
						r.mismatch("determinant", ti.name, "order2", "deriv", vh.M{"order": 1, "diff": "value"},
							vh.M{"var": v, "expected": c.Ddet[v], "observed": jsonNum(got)})
						ok = false
					}
				}
				if ok {
					d.hess(res, V, func(v, w int) float64 { return float64(c.D2det[v][w]) }, 1+rowprod, "det")
				}
			}
		}
		// ---- Gauss-Jordan: x = inverse, b = solution; entries of A and the right-hand side are variables
		{
			a := mkMatrix(t, c.A)
			x := mkIdentity(t, n)
			b := mkVector(t, ramp)
			bvars := []MagicScalar{}
			for i := 0; i < n; i++ {
				bvars = append(bvars, b.(MagicVector).MagicAt(i))
			}
			activate(1, []Matrix{a}, c.Vars, bvars)
			o := call(func() error { return gaussJordan.Run(a, x, b) })
			if r.valuesM("gaussJordan", ti.name, "order1", o, x, inv, kappa, ti.tol, n) {
				d := dcheck{r, "gaussJordan", ti.name, "order1/x", ti.tol}
				d.gradM(x, 0, dinv, k2)
				if got := r.judgeV("gaussJordan", ti.name, "order1/b", vh.M{"with": "variables"}, o, b, ratV(c.Sol), kappa, "none", ti.tol); got != nil {
					d.opts = "order1/b"
					dsa := make([][]float64, V)
					for v := range dsa {
						dsa[v] = ratV(c.Dsola[v])
					}
					d.gradV(b, 0, dsa, k2)
					// d x_k / d b_i = Inv[k][i]
					dsb := make([][]float64, n)
					for i := 0; i < n; i++ {
						dsb[i] = column(inv, i)
					}
					d.opts = "order1/b_wrt_b"
					d.gradV(b, V, dsb, k2)
				}
			}
		}
		// ---- back substitution on triangular members: the entries of the upper triangle
		// AND of the right-hand side are variables (order 1 and 2)
		if c.Tri {
			vars := [][]int{}
			idx := []int{}
			for v, p := range c.Vars {
				if p[0] <= p[1] {
					vars = append(vars, p)
					idx = append(idx, v)
				}
			}
			nA := len(vars)
			for order := 1; order <= 2; order++ {
				opts := "order1"
				if order == 2 {
					opts = "order2"
				}
				a := mkMatrix(t, c.A)
				b := mkVector(t, ramp)
				bvars := []MagicScalar{}
				for i := 0; i < n; i++ {
					bvars = append(bvars, b.(MagicVector).MagicAt(i))
				}
				activate(order, []Matrix{a}, vars, bvars)
				var res Vector
				o := call(func() error {
					var err error
					res, err = backSubstitution.Run(a, b)
					return err
				})
				if got := r.judgeV("backSubstitution", ti.name, opts, vh.M{"with": "variables"}, o, res, ratV(c.Sol), kappa, "none", ti.tol); got != nil {
					dsa := make([][]float64, len(idx))
					for q, v := range idx {
						dsa[q] = ratV(c.Dsola[v])
					}
					d := dcheck{r, "backSubstitution", ti.name, opts, ti.tol}
					d.gradV(res, 0, dsa, k2)
					// d x_k / d b_i = Inv[k][i]
					dsb := make([][]float64, n)
					for i := 0; i < n; i++ {
						dsb[i] = column(inv, i)
					}
					d.opts = opts + "/wrt_b"
					d.gradV(res, nA, dsb, k2)
					if order == 2 {
						// d2 x_k / dA_v db_i = d Inv[k][i] / dA_v ; d2 / db db = 0 ; (A, A) block only in the tables for n <= 2
						r.nchecks++
						for k := 0; k < n; k++ {
							s := res.ConstAt(k)
							ok := true
							for q := 0; q < nA && ok; q++ {
								for i := 0; i < n && ok; i++ {
									want := dinv[idx[q]][k][i]
									for _, got := range []float64{hessOf(s, q, nA+i), hessOf(s, nA+i, q)} {
										if !(math.Abs(got-want) <= ti.tol*(1+math.Abs(want))*k2*kappa) {
											r.mismatch("backSubstitution", ti.name, opts+"/wrt_b", "deriv", vh.M{"order": 2, "diff": "value"},
												vh.M{"at": k, "vars": []int{q, nA + i}, "expected": want, "observed": jsonNum(got)})
											ok = false
											break
										}
									}
								}
							}
							for i := 0; i < n && ok; i++ {
								for j := 0; j < n && ok; j++ {
									if got := hessOf(s, nA+i, nA+j); !(math.Abs(got) <= ti.tol*k2*kappa) {
										r.mismatch("backSubstitution", ti.name, opts+"/wrt_b", "deriv", vh.M{"order": 2, "diff": "value"},
											vh.M{"at": k, "vars": []int{nA + i, nA + j}, "expected": 0, "observed": jsonNum(got)})
										ok = false
									}
								}
							}
							if !ok {
								break
							}
						}
					}
				}
			}
		}
		// ---- matrix product, order 2: entries of both factors are variables; the generic
		// MdotM and the type-specialised MDOTM; the FULL Hessian (both triangles) is compared
		prodScale := 1.0
		for i := 0; i < n; i++ {
			for j := 0; j < n; j++ {
				prodScale = math.Max(prodScale, math.Abs(float64(c.C[i][j])))
			}
		}
		for _, path := range []string{"MdotM", "MDOTM"} {
			a := mkMatrix(t, c.A)
			bm := mkMatrix(t, c.B)
			activate(2, []Matrix{a, bm}, c.Vars, nil)
			cm := NullDenseMatrix(t, n, n)
			o := call(func() error { binaryOp(path, cm, a, bm); return nil })
			if r.valuesM(path, ti.name, "order2", o, cm, intM(c.C), prodScale, ti.tol, n) {
				d := dcheck{r, path, ti.name, "order2", ti.tol}
				d.gradM(cm, 0, int3(c.Dca), prodScale)
				d.gradM(cm, V, int3(c.Dcb), prodScale)
				r.nchecks++
			loop2:
				for k := 0; k < n; k++ {
					for l := 0; l < n; l++ {
						want := func(v, w int) float64 {
							switch {
							case v < V && w >= V:
								return float64(c.D2c[v][w-V][k][l])
							case v >= V && w < V:
								return float64(c.D2c[w][v-V][k][l])
							}
							return 0
						}
						if !d.hess(cm.ConstAt(k, l), 2*V, want, prodScale, []int{k, l}) {
							break loop2
						}
					}
				}
			}
		}
		// ---- the type-specialised element-wise and product methods against the generic ones:
		// value, gradient and the full Hessian of every entry must be identical
		for _, pair := range [][2]string{{"MdotM", "MDOTM"}, {"MaddM", "MADDM"}, {"MsubM", "MSUBM"}, {"MmulM", "MMULM"}, {"MdivM", "MDIVM"}} {
			states := [2]string{}
			outs := [2]outcome{}
			for q := 0; q < 2; q++ {
				a := mkMatrix(t, c.A)
				bm := mkMatrix(t, c.B)
				activate(2, []Matrix{a, bm}, c.Vars, nil)
				cm := dirtyMatrix(t, n)
				outs[q] = call(func() error { binaryOp(pair[q], cm, a, bm); return nil })
				states[q] = matrixState(cm)
			}
			r.nchecks++
			r.count("typed_vs_generic:" + pair[1])
			if outs[0].loud() != outs[1].loud() || (!outs[0].loud() && states[0] != states[1]) {
				r.mismatch(pair[1], ti.name, "order2", "fast_vs_generic", vh.M{"diff": "derivative_state"},
					vh.M{"generic": pair[0], "typed": pair[1], "generic_outcome": outs[0].String(), "typed_outcome": outs[1].String(),
						"generic_state": trunc(states[0], 1500), "typed_state": trunc(states[1], 1500)})
			}
		}
		// ---- the second derivatives of a product entry read through the Hessian helper
		if V > 0 {
			k, l := int(c.Idx)%n, int(c.Idx/7)%n
			x := NullDenseVector(t, 2*V)
			for v, p := range c.Vars {
				x.At(v).SetFloat64(float64(c.A[p[0]-1][p[1]-1]))
				x.At(V + v).SetFloat64(float64(c.B[p[0]-1][p[1]-1]))
			}
			for _, path := range []string{"MdotM", "MDOTM"} {
				g := func(y ConstVector) ConstScalar {
					a := mkMatrix(t, c.A)
					bm := mkMatrix(t, c.B)
					for v, p := range c.Vars {
						a.At(p[0]-1, p[1]-1).Set(y.ConstAt(v))
						bm.At(p[0]-1, p[1]-1).Set(y.ConstAt(V + v))
					}
					cm := NullDenseMatrix(t, n, n)
					binaryOp(path, cm, a, bm)
					return cm.ConstAt(k, l)
				}
				want := make([][]float64, 2*V)
				for v := range want {
					want[v] = make([]float64, 2*V)
					for w := range want[v] {
						switch {
						case v < V && w >= V:
							want[v][w] = float64(c.D2c[v][w-V][k][l])
						case v >= V && w < V:
							want[v][w] = float64(c.D2c[w][v-V][k][l])
						}
					}
				}
				h := NullDenseMatrix(t, 2*V, 2*V)
				o := call(func() error { h.Hessian(g, x.(MagicVector)); return nil })
				r.note = vh.M{"entry": []int{k, l}}
				r.judgeM("Hessian", ti.name, "of_"+path, nil, o, h, expectInv{want, prodScale, "none"}, ti.tol, 2*V)
				r.note = nil
			}
		}
	}
}

func hessOf(s ConstScalar, v, w int) float64 {
	if s.GetOrder() < 2 || s.GetN() <= v || s.GetN() <= w {
		return 0
	}
	return s.GetHessian(v, w)
}

func trunc(s string, n int) string {
	if len(s) > n {
		return s[:n] + "..."
	}
	return s
}

// generic (interface) and type-specialised (capital letters) binary matrix methods
func binaryOp(name string, r, a, b Matrix) {
	switch name {
	case "MdotM":
		r.MdotM(a, b)
	case "MaddM":
		r.MaddM(a, b)
	case "MsubM":
		r.MsubM(a, b)
	case "MmulM":
		r.MmulM(a, b)
	case "MdivM":
		r.MdivM(a, b)
	default:
		switch rr := r.(type) {
		case *DenseReal64Matrix:
			aa, bb := a.(*DenseReal64Matrix), b.(*DenseReal64Matrix)
			switch name {
			case "MDOTM":
				rr.MDOTM(aa, bb)
			case "MADDM":
				rr.MADDM(aa, bb)
			case "MSUBM":
				rr.MSUBM(aa, bb)
			case "MMULM":
				rr.MMULM(aa, bb)
			case "MDIVM":
				rr.MDIVM(aa, bb)
			default:
				panic("unknown op " + name)
			}
		case *DenseReal32Matrix:
			aa, bb := a.(*DenseReal32Matrix), b.(*DenseReal32Matrix)
			switch name {
			case "MDOTM":
				rr.MDOTM(aa, bb)
			case "MADDM":
				rr.MADDM(aa, bb)
			case "MSUBM":
				rr.MSUBM(aa, bb)
			case "MMULM":
				rr.MMULM(aa, bb)
			case "MDIVM":
				rr.MDIVM(aa, bb)
			default:
				panic("unknown op " + name)
			}
		default:
			panic("no typed path for this matrix type")
		}
	}
}

// value, gradient and full Hessian of every entry, as a comparable string;
// entries without derivative storage are reported as zero derivatives of the
// largest N / order met in the matrix, so that allocation details do not matter
func matrixState(m ConstMatrix) string {
	rows, cols := m.Dims()
	nmax, omax := 0, 0
	for i := 0; i < rows; i++ {
		for j := 0; j < cols; j++ {
			s := m.ConstAt(i, j)
			if s.GetOrder() > omax {
				omax = s.GetOrder()
			}
			if s.GetOrder() > 0 && s.GetN() > nmax {
				nmax = s.GetN()
			}
		}
	}
	out := []interface{}{}
	for i := 0; i < rows; i++ {
		for j := 0; j < cols; j++ {
			s := m.ConstAt(i, j)
			e := []interface{}{jsonNum(s.GetFloat64())}
			if omax >= 1 {
				for k := 0; k < nmax; k++ {
					if s.GetOrder() >= 1 && s.GetN() > k {
						e = append(e, jsonNum(s.GetDerivative(k)))
					} else {
						e = append(e, 0.0)
					}
				}
			}
			if omax >= 2 {
				for k := 0; k < nmax; k++ {
					for l := 0; l < nmax; l++ {
						e = append(e, jsonNum(hessOf(s, k, l)))
					}
				}
			}
			out = append(out, e)
		}
	}
	b, _ := json.Marshal(out)
	return string(b)
}

// symmetric matrix whose entries (p,q) and (q,p) are one variable
func symMatrix(t ScalarType, a [][]int64, vars [][]int, order int) Matrix {
	m := mkMatrix(t, a)
	list := []MagicScalar{}
	for _, v := range vars {
		s := NewScalar(t, float64(a[v[0]-1][v[1]-1]))
		list = append(list, s.(MagicScalar))
	}
	if err := Variables(order, list...); err != nil {
		panic(err)
	}
	for q, v := range vars {
		m.At(v[0]-1, v[1]-1).Set(list[q])
		m.At(v[1]-1, v[0]-1).Set(list[q])
	}
	return m
}

func (r *reporter) c06DSpd(c *DSpdCase) {
	n := c.N
	V := len(c.Vars)
	kappa := c.Kap.F()
	k2 := kappa * kappa
	inv := ratM(c.Inv)
	dinv := rat3(c.Dinv)
	dL := rat3(c.DL)
	det := float64(c.Det)
	// a different activation (same number of variables, attached to other
	// entries), used to fill re-used buffers with foreign derivatives; buffers
	// that carry a different NUMBER of variables make the library panic with its
	// documented "different number of partial derivatives" message, which is a
	// loud usage error and not in the scope of the property
	other := [][]int{}
	for q := range c.Vars {
		other = append(other, c.Vars[(q+1)%V])
	}
	for _, ti := range realTypes {
		t := ti.t
		// ---- Cholesky factor
		{
			a := symMatrix(t, c.A, c.Vars, 1)
			var l Matrix
			o := call(func() error {
				var err error
				l, _, err = cholesky.Run(a)
				return err
			})
			if r.valuesM("cholesky", ti.name, "order1", o, l, intM(c.L), kappa, ti.tol, n) {
				dcheck{r, "cholesky", ti.name, "order1", ti.tol}.gradM(l, 0, dL, k2)
			}
			// re-used buffers that carry derivatives of a previous factorisation
			is := &cholesky.InSitu{}
			call(func() error { _, _, err := cholesky.Run(symMatrix(t, c.A, other, 1), is); return err })
			a = symMatrix(t, c.A, c.Vars, 1)
			o = call(func() error {
				var err error
				l, _, err = cholesky.Run(a, is)
				return err
			})
			if r.valuesM("cholesky", ti.name, "order1+insitu_reuse", o, l, lowerOnly(intM(c.L), l), kappa, ti.tol, n) {
				dcheck{r, "cholesky", ti.name, "order1+insitu_reuse", ti.tol}.gradM(lowerView{l}, 0, dL, k2)
			}
		}
		// ---- inverse: Cholesky path and Gauss-Jordan path, total derivative in the symmetric direction
		for _, cfg := range []struct {
			opts string
			args []interface{}
		}{
			{"pd/order1", []interface{}{matrixInverse.PositiveDefinite{Value: true}}},
			{"default/order1", nil},
		} {
			a := symMatrix(t, c.A, c.Vars, 1)
			var res Matrix
			o := call(func() error {
				var err error
				res, err = matrixInverse.Run(a, cfg.args...)
				return err
			})
			if r.valuesM("inverse", ti.name, cfg.opts, o, res, inv, kappa, ti.tol, n) {
				dcheck{r, "inverse", ti.name, cfg.opts, ti.tol}.gradM(res, 0, dinv, k2)
			}
		}
		{
			is := &matrixInverse.InSitu{}
			pd := matrixInverse.PositiveDefinite{Value: true}
			call(func() error { _, err := matrixInverse.Run(symMatrix(t, c.A, other, 1), pd, is); return err })
			a := symMatrix(t, c.A, c.Vars, 1)
			var res Matrix
			o := call(func() error {
				var err error
				res, err = matrixInverse.Run(a, pd, is)
				return err
			})
			if r.valuesM("inverse", ti.name, "pd/order1+insitu_reuse", o, res, inv, kappa, ti.tol, n) {
				dcheck{r, "inverse", ti.name, "pd/order1+insitu_reuse", ti.tol}.gradM(res, 0, dinv, k2)
			}
		}
		// ---- determinant and log-determinant
		for _, cfg := range []struct {
			opts string
			args []interface{}
			want float64
			d    func(v int) float64
		}{
			{"pd+log/order1", []interface{}{determinant.PositiveDefinite{Value: true}, determinant.LogScale{Value: true}},
				math.Log(det), func(v int) float64 { return c.Dlogdet[v].F() }},
			{"pd/order1", []interface{}{determinant.PositiveDefinite{Value: true}}, det, func(v int) float64 { return float64(c.Ddet[v]) }},
			{"default/order1", nil, det, func(v int) float64 { return float64(c.Ddet[v]) }},
		} {
			a := symMatrix(t, c.A, c.Vars, 1)
			var res Scalar
			o := call(func() error {
				var err error
				res, err = determinant.Run(a, cfg.args...)
				return err
			})
			r.nchecks++
			scale := ti.tol * kappa * (1 + math.Abs(det))
			if o.loud() || res == nil {
				r.mismatch("determinant", ti.name, cfg.opts, "error_on_regular", vh.M{"with": "variables"}, vh.M{"observed": o.String()})
				continue
			}
			if !(math.Abs(res.GetFloat64()-cfg.want) <= scale*(1+math.Abs(cfg.want))) {
				r.mismatch("determinant", ti.name, cfg.opts, "value", vh.M{"with": "variables"},
					vh.M{"expected": cfg.want, "observed": jsonNum(res.GetFloat64())})
				continue
			}
			for v := 0; v < V; v++ {
				got := 0.0
				if res.GetOrder() >= 1 && res.GetN() > v {
					got = res.GetDerivative(v)
				}
				if !(math.Abs(got-cfg.d(v)) <= scale*(1+math.Abs(cfg.d(v)))) {
					r.mismatch("determinant", ti.name, cfg.opts, "deriv", vh.M{"order": 1, "diff": "value"},
						vh.M{"var": v, "pair": c.Vars[v], "expected": cfg.d(v), "observed": jsonNum(got)})
					break
				}
			}
		}
	}
}

// with caller-supplied buffers the strict upper triangle of L is whatever the
// buffer held (the factor is defined by its lower triangle): compare that part only
func lowerOnly(want [][]float64, got ConstMatrix) [][]float64 {
	if got == nil {
		return want
	}
	out := make([][]float64, len(want))
	for i := range want {
		out[i] = make([]float64, len(want[i]))
		for j := range want[i] {
			if j <= i {
				out[i][j] = want[i][j]
			} else {
				out[i][j] = got.ConstAt(i, j).GetFloat64()
			}
		}
	}
	return out
}

type lowerView struct{ Matrix }

func (l lowerView) ConstAt(i, j int) ConstScalar {
	if j > i {
		return ConstFloat64(0)
	}
	return l.Matrix.ConstAt(i, j)
}

// ---------------------------------------------------------------- Jacobian / Hessian helpers

func polyEval(p []PolyTerm, x ConstVector, t ScalarType) Scalar {
	sum := NullScalar(t)
	for _, term := range p {
		m := NewScalar(t, float64(term.C))
		for i, e := range term.E {
			for q := int64(0); q < e; q++ {
				m.Mul(m, x.ConstAt(i))
			}
		}
		sum.Add(sum, m)
	}
	return sum
}

// evaluation point in the derivative state named by the specification
// (PointStates in MatrixCalculus.tla); the values are always c.X
func polyPoint(xt ScalarType, c *PolyCase, state string) MagicVector {
	nv := c.N
	val := func(i int) float64 { return c.X[i].F() }
	switch state {
	case "fresh":
		x := NullDenseVector(xt, nv)
		for i := 0; i < nv; i++ {
			x.At(i).SetFloat64(val(i))
		}
		return x.(MagicVector)
	case "slice_o1", "slice_o2":
		order := 1
		if state == "slice_o2" {
			order = 2
		}
		theta := NullDenseVector(xt, nv+2)
		theta.At(0).SetFloat64(0.75)
		theta.At(nv + 1).SetFloat64(-1.25)
		for i := 0; i < nv; i++ {
			theta.At(i + 1).SetFloat64(val(i))
		}
		if err := theta.(MagicVector).Variables(order); err != nil {
			panic(err)
		}
		return theta.(MagicVector).MagicSlice(1, nv+1)
	case "computed_o1", "computed_o2":
		order := 1
		if state == "computed_o2" {
			order = 2
		}
		u := NullDenseVector(xt, nv+1)
		for i := 0; i < nv; i++ {
			u.At(i).SetFloat64(val(i))
		}
		u.At(nv).SetFloat64(1)
		if err := u.(MagicVector).Variables(order); err != nil {
			panic(err)
		}
		x := NullDenseVector(xt, nv)
		for i := 0; i < nv; i++ {
			x.At(i).Mul(u.ConstAt(i), u.ConstAt(nv))
		}
		return x.(MagicVector)
	case "sameN_o1":
		x := NullDenseVector(xt, nv)
		list := []MagicScalar{}
		for i := nv - 1; i >= 0; i-- {
			x.At(i).SetFloat64(val(i))
			list = append(list, x.(MagicVector).MagicAt(i))
		}
		if err := Variables(1, list...); err != nil {
			panic(err)
		}
		return x.(MagicVector)
	case "sameN_o2":
		u := NullDenseVector(xt, nv)
		list := []MagicScalar{}
		for i := nv - 1; i >= 0; i-- {
			u.At(i).SetFloat64(val(i))
			list = append(list, u.(MagicVector).MagicAt(i))
		}
		if err := Variables(2, list...); err != nil {
			panic(err)
		}
		x := NullDenseVector(xt, nv)
		t := NullScalar(xt)
		for i := 0; i < nv; i++ {
			j := (i + 1) % nv
			t.Sub(u.ConstAt(j), ConstFloat64(val(j)))
			t.Mul(t, t)
			x.At(i).Add(u.ConstAt(i), t)
		}
		return x.(MagicVector)
	}
	panic("unknown point state " + state)
}

// element types the Jacobian/Hessian helpers exist for; the integer result
// matrices hold the derivatives truncated towards zero (tables jaci / hessi)
type htype struct {
	tinfo
	integer bool
	max     float64 // largest representable magnitude that is relevant here
}

var helperTypes = []htype{
	{allTypes[0], false, 0}, {allTypes[1], false, 0}, {allTypes[2], false, 0}, {allTypes[3], false, 0},
	{tinfo{"int", IntType, 0, 0, false}, true, 1e15},
	{tinfo{"i64", Int64Type, 0, 0, false}, true, 1e15},
	{tinfo{"i32", Int32Type, 0, 0, false}, true, 2147483647},
	{tinfo{"i16", Int16Type, 0, 0, false}, true, 32767},
	{tinfo{"i8", Int8Type, 0, 0, false}, true, 127},
}

func maxAbs(a [][]float64) float64 {
	m := 0.0
	for _, r := range a {
		for _, x := range r {
			m = math.Max(m, math.Abs(x))
		}
	}
	return m
}

// result matrix in the state named by the specification (MatrixStates)
func resultMatrix(t ScalarType, rows, cols int, state string, fill func(m Matrix)) Matrix {
	m := NullDenseMatrix(t, rows, cols)
	switch state {
	case "fresh":
	case "junk":
		for i := 0; i < rows; i++ {
			for j := 0; j < cols; j++ {
				m.At(i, j).SetFloat64(float64(3 + 2*i + 5*j)) // non-zero for every type
			}
		}
	case "reused":
		fill(m)
	default:
		panic("unknown matrix state " + state)
	}
	return m
}

func (r *reporter) c06Poly(c *PolyCase) {
	nv := c.N
	pstates := c.PStates
	if len(pstates) == 0 {
		pstates = []string{"fresh"}
	}
	mstates := c.MStates
	if len(mstates) == 0 {
		mstates = []string{"fresh"}
	}
	for _, ht := range helperTypes {
		ti := ht.tinfo
		jac, hess := ratM(c.Jac), ratM(c.Hess)
		if ht.integer {
			jac, hess = intM(c.JacI), intM(c.HessI)
			if maxAbs(jac) > ht.max || maxAbs(hess) > ht.max {
				r.count("helper_skipped_overflow:" + ti.name)
				continue
			}
		}
		scale := math.Max(1, math.Max(maxAbs(jac), maxAbs(hess)))
		xt := Real64Type
		if ti.t == Float32Type || ti.t == Real32Type {
			xt = Real32Type
		}
		f := func(y ConstVector) ConstVector {
			out := NullDenseVector(xt, len(c.F))
			for k := range c.F {
				out.At(k).Set(polyEval(c.F[k], y, xt))
			}
			return out
		}
		g := func(y ConstVector) ConstScalar { return polyEval(c.F[0], y, xt) }
		// the other evaluation point, for result matrices filled by a previous call
		other := func() MagicVector {
			x := NullDenseVector(xt, nv)
			for i := 0; i < nv; i++ {
				v := 1.5
				if len(c.X2) == nv {
					v = c.X2[i].F()
				}
				x.At(i).SetFloat64(v)
			}
			return x.(MagicVector)
		}
		for _, state := range pstates {
			if ht.integer && state != "fresh" {
				continue
			}
			opts := "poly/" + state
			var x MagicVector
			if msg := vh.Try(func() { x = polyPoint(xt, c, state) }); msg != "" {
				r.count("point_state_unbuildable:" + state)
				continue
			}
			ok := true
			for i := 0; i < nv; i++ {
				if x.ConstAt(i).GetFloat64() != c.X[i].F() {
					ok = false
				}
			}
			if !ok {
				r.count("point_state_inexact:" + state)
				continue
			}
			r.count("point_state:" + state)
			before := derivState(x)
			for _, ms := range mstates {
				r.note = vh.M{"point_state": state, "result_matrix": ms}
				r.count("result_matrix:" + ti.name + ":" + ms)
				extra := vh.M{"result": ms}
				exact := expectInv{jac, scale, "none"}
				tol := ti.tol
				if ht.integer {
					tol = 0 // integers: exact
				}
				{
					m := resultMatrix(ti.t, len(c.F), nv, ms, func(m Matrix) { m.Jacobian(f, other()) })
					o := call(func() error { m.Jacobian(f, x); return nil })
					r.judgeM("Jacobian", ti.name, opts, extra, o, m, exact, tol, len(c.F))
				}
				{
					m := resultMatrix(ti.t, nv, nv, ms, func(m Matrix) { m.Hessian(g, other()) })
					o := call(func() error { m.Hessian(g, x); return nil })
					r.judgeM("Hessian", ti.name, opts, extra, o, m, expectInv{hess, scale, "none"}, tol, nv)
				}
			}
			// what the caller's point carries must survive the helper
			r.nchecks++
			if after := derivState(x); after != before {
				r.mismatch("Jacobian", ti.name, opts, "argument_changed", nil, vh.M{"before": before, "after": after})
			}
		}
		r.note = nil
	}
}

// value and derivative state of a vector, as a comparable string
func derivState(x ConstVector) string {
	b, _ := json.Marshal(func() interface{} {
		out := []interface{}{}
		for i := 0; i < x.Dim(); i++ {
			s := x.ConstAt(i)
			e := []interface{}{jsonNum(s.GetFloat64()), s.GetOrder(), s.GetN()}
			if s.GetOrder() >= 1 {
				for k := 0; k < s.GetN(); k++ {
					e = append(e, jsonNum(s.GetDerivative(k)))
				}
			}
			if s.GetOrder() >= 2 {
				for k := 0; k < s.GetN(); k++ {
					for l := 0; l < s.GetN(); l++ {
						e = append(e, jsonNum(s.GetHessian(k, l)))
					}
				}
			}
			out = append(out, e)
		}
		return out
	}())
	return string(b)
}
