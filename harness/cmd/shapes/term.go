// Part B of C20: bounded response of the iterative routines.
//
// The cases printed by spec/Termination.tla (an input class member plus the
// routines to drive and their budgets in ticks = ms) are executed in CHILD
// processes, because a spinning call cannot be interrupted inside a Go process:
// the child writes a journal line before each call and one after it; the parent
// follows the journal, kills the child when the journalled call exceeds its
// budget, records the observation `timeout` for that call and restarts a child
// right after it.  The parent writes the event trace that
// spec/TerminationTrace.tla validates.
package main

import (
	"bufio"
	"encoding/json"
	"errors"
	"fmt"
	"io"
	"math"
	"os"
	"os/exec"
	"sort"
	"strconv"
	"strings"
	"sync"
	"time"

	. "github.com/pbenner/autodiff"
	"github.com/pbenner/autodiff/algorithm/adam"
	"github.com/pbenner/autodiff/algorithm/bfgs"
	"github.com/pbenner/autodiff/algorithm/cholesky"
	"github.com/pbenner/autodiff/algorithm/determinant"
	"github.com/pbenner/autodiff/algorithm/eigensystem"
	"github.com/pbenner/autodiff/algorithm/gradientDescent"
	"github.com/pbenner/autodiff/algorithm/gramSchmidt"
	"github.com/pbenner/autodiff/algorithm/hessenbergReduction"
	"github.com/pbenner/autodiff/algorithm/householderBidiagonalization"
	"github.com/pbenner/autodiff/algorithm/householderTridiagonalization"
	"github.com/pbenner/autodiff/algorithm/lineSearch"
	"github.com/pbenner/autodiff/algorithm/matrixInverse"
	"github.com/pbenner/autodiff/algorithm/msqrt"
	"github.com/pbenner/autodiff/algorithm/msqrtInv"
	"github.com/pbenner/autodiff/algorithm/newton"
	"github.com/pbenner/autodiff/algorithm/qrAlgorithm"
	"github.com/pbenner/autodiff/algorithm/rprop"
	"github.com/pbenner/autodiff/algorithm/saga"
	"github.com/pbenner/autodiff/algorithm/svd"

	"verifharness/vh"
)

type tcall struct {
	R string `json:"r"`
	B int    `json:"b"`
}

type tcase struct {
	Kind  string  `json:"kind"`
	Class string  `json:"class"`
	N     int     `json:"n"`
	M     []int   `json:"m"`
	Obj   string  `json:"obj"`
	K     int     `json:"k"`
	Calls []tcall `json:"calls"`
}

func readTermCases(path string) []*tcase {
	var cs []*tcase
	err := vh.EachLine(path, func(line []byte) error {
		c := &tcase{}
		if e := json.Unmarshal(line, c); e != nil {
			return fmt.Errorf("bad case: %v: %.200s", e, line)
		}
		cs = append(cs, c)
		return nil
	})
	if err != nil {
		vh.Fatal(err)
	}
	return cs
}

func entry(v int) float64 {
	switch v {
	case 1000:
		return math.NaN()
	case 1001:
		return math.Inf(1)
	case 1002:
		return math.Inf(-1)
	}
	return float64(v)
}

func caseMatrix(c *tcase) *DenseFloat64Matrix {
	a := NullDenseFloat64Matrix(c.N, c.N)
	for i := 0; i < c.N; i++ {
		for j := 0; j < c.N; j++ {
			a.At(i, j).SetFloat64(entry(c.M[i*c.N+j]))
		}
	}
	return a
}

/* ------------------------------------------------------------- objectives */

// fault injects the fault class of the case into an objective value.
type fault struct {
	class string
	k     int
	evals int
}

func (f *fault) active() bool { return f.evals > f.k }

// apply is called once per evaluation with the regular result y
func (f *fault) apply(y Scalar) error {
	f.evals++
	if !f.active() {
		return nil
	}
	switch f.class {
	case "nan":
		y.Mul(y, ConstFloat64(math.NaN()))
	case "posinf":
		y.Mul(y, ConstFloat64(math.Inf(1)))
	case "error":
		return errors.New("objective failed")
	}
	return nil
}

func runObjective(c *tcase, routine string) error {
	n := c.N
	fl := &fault{class: c.Class, k: c.K}
	x0 := NullDenseFloat64Vector(n)
	for i := range x0 {
		x0[i] = 2
	}
	// sum (x_i - 1)^2, or a constant for the zero_gradient class
	f := func(x ConstVector) (MagicScalar, error) {
		y := NewReal64(0)
		t := NewReal64(0)
		for i := 0; i < x.Dim(); i++ {
			t.Sub(x.ConstAt(i), ConstFloat64(1))
			if c.Class == "zero_gradient" {
				t.Mul(t, ConstFloat64(0))
			} else {
				t.Mul(t, t)
			}
			y.Add(y, t)
		}
		if c.Class == "zero_gradient" {
			y.Add(y, ConstFloat64(1))
		}
		if err := fl.apply(y); err != nil {
			return nil, err
		}
		return y, nil
	}
	// x_i - 1
	froot := func(x ConstVector) (MagicVector, error) {
		y := NullDenseReal64Vector(x.Dim())
		var err error
		fl.evals++
		for i := 0; i < x.Dim(); i++ {
			y.At(i).Sub(x.ConstAt(i), ConstFloat64(1))
			if c.Class == "zero_gradient" {
				y.At(i).Mul(y.At(i), ConstFloat64(0))
				y.At(i).Add(y.At(i), ConstFloat64(1))
			}
			if fl.active() {
				switch fl.class {
				case "nan":
					y.At(i).Mul(y.At(i), ConstFloat64(math.NaN()))
				case "posinf":
					y.At(i).Mul(y.At(i), ConstFloat64(math.Inf(1)))
				case "error":
					err = errors.New("objective failed")
				}
			}
		}
		if err != nil {
			return nil, err
		}
		return y, nil
	}
	same := func(x ConstVector) bool {
		for i := 0; i < x.Dim(); i++ {
			if x.ConstAt(i).GetFloat64() != 2 {
				return false
			}
		}
		return true
	}
	halfspace := func(x ConstVector) bool {
		for i := 0; i < x.Dim(); i++ {
			if !(x.ConstAt(i).GetFloat64() >= 2) {
				return false
			}
		}
		return true
	}
	ccons := func(x ConstVector) bool {
		switch c.Class {
		case "constraints_never":
			return false
		case "constraints_only_start":
			return same(x)
		case "constraints_halfspace":
			return halfspace(x)
		}
		return true
	}
	cons := func(x Vector) bool { return ccons(x) }
	hasCons := c.Class == "constraints_never" || c.Class == "constraints_only_start" || c.Class == "constraints_halfspace"
	// explicit gradient of sum (x_i - 1)^2 with the fault of the class
	grad := func(x, g DenseFloat64Vector) error {
		fl.evals++
		for i := range x {
			g[i] = 2 * (x[i] - 1)
			if c.Class == "zero_gradient" {
				g[i] = 0
			}
			if fl.active() {
				switch fl.class {
				case "nan":
					g[i] *= math.NaN()
				case "posinf":
					g[i] *= math.Inf(1)
				case "error":
					return errors.New("objective failed")
				}
			}
		}
		return nil
	}
	var err error
	if c.Class == "epsilon_unattainable" {
		return runEpsilon(c, routine)
	}
	if c.Class == "domain_error" || c.Class == "domain_nan" {
		return runDomain(c, routine)
	}
	switch routine {
	case "lineSearch":
		phi := func(alpha ConstScalar) (MagicScalar, error) {
			y := NewReal64(0)
			y.Sub(alpha, ConstFloat64(1))
			if c.Class == "zero_gradient" {
				y.Mul(y, ConstFloat64(0))
				y.Add(y, ConstFloat64(1))
			} else {
				y.Mul(y, y)
			}
			if e := fl.apply(y); e != nil {
				return nil, e
			}
			return y, nil
		}
		args := []interface{}{}
		if hasCons {
			args = append(args, lineSearch.Constraints{Value: func(a ConstScalar) bool {
				if c.Class == "constraints_never" {
					return false
				}
				return a.GetFloat64() == 0
			}})
		}
		_, err = lineSearch.Run(phi, Float64Type, args...)
	case "rprop":
		args := []interface{}{}
		if hasCons {
			args = append(args, rprop.Constraints{Value: cons})
		}
		_, err = rprop.Run(f, x0, 0.01, []float64{1.2, 0.5}, args...)
	case "rpropGradient":
		args := []interface{}{}
		if hasCons {
			args = append(args, rprop.ConstConstraints{Value: ccons})
		}
		_, err = rprop.RunGradient(rprop.DenseGradientF(grad), x0, 0.01, []float64{1.2, 0.5}, args...)
	case "adamGradient":
		args := []interface{}{}
		if hasCons {
			args = append(args, adam.ConstConstraints{Value: ccons})
		}
		_, err = adam.RunGradient(adam.DenseGradientF(grad), x0, args...)
	case "gradientDescent":
		_, err = gradientDescent.Run(f, x0, 0.1)
	case "newtonRoot":
		args := []interface{}{}
		if hasCons {
			args = append(args, newton.Constraints{Value: cons})
		}
		_, err = newton.RunRoot(froot, x0, args...)
	case "newtonCrit":
		args := []interface{}{}
		if hasCons {
			args = append(args, newton.Constraints{Value: cons})
		}
		_, err = newton.RunCrit(f, x0, args...)
	case "newtonMin":
		args := []interface{}{}
		if hasCons {
			args = append(args, newton.Constraints{Value: cons})
		}
		_, err = newton.RunMin(f, x0, args...)
	case "bfgs":
		args := []interface{}{}
		if hasCons {
			args = append(args, bfgs.Constraints{Value: cons})
		}
		_, err = bfgs.Run(f, x0, args...)
	case "adam":
		args := []interface{}{}
		if hasCons {
			args = append(args, adam.Constraints{Value: cons})
		}
		_, err = adam.Run(f, x0, args...)
	case "saga":
		// least squares over n samples: f_i(x) = (x_i - 1)^2 / 2, gradient w g with
		// w = x_i - 1 and g = e_i
		basis := make([]DenseFloat64Vector, n)
		for i := range basis {
			basis[i] = NullDenseFloat64Vector(n)
			basis[i][i] = 1
		}
		g := func(i int, x DenseFloat64Vector) (float64, float64, DenseFloat64Vector, error) {
			w := x[i] - 1
			if c.Class == "zero_gradient" {
				w = 0
			}
			fl.evals++
			if fl.active() {
				switch fl.class {
				case "nan":
					w *= math.NaN()
				case "posinf":
					w *= math.Inf(1)
				case "error":
					return 0, 0, nil, errors.New("objective failed")
				}
			}
			return w * w / 2, w, basis[i], nil
		}
		_, _, err = saga.Run(saga.Objective1Dense(g), n, x0)
	default:
		vh.Fatal("routine not bound in the driver: " + routine)
	}
	return err
}

// Epsilon below the attainable accuracy on exp(x) = t
func runEpsilon(c *tcase, routine string) error {
	t := float64(c.K)
	if c.K < 0 {
		t = 1 / float64(-c.K)
	}
	x0 := NewDenseFloat64Vector([]float64{2})
	eps := newton.Epsilon{Value: 1e-30}
	froot := func(x ConstVector) (MagicVector, error) {
		y := NullDenseReal64Vector(1)
		y.At(0).Exp(x.ConstAt(0))
		y.At(0).Sub(y.At(0), ConstFloat64(t))
		return y, nil
	}
	f := func(x ConstVector) (MagicScalar, error) {
		y := NewReal64(0)
		u := NewReal64(0)
		y.Exp(x.ConstAt(0))
		u.Mul(x.ConstAt(0), ConstFloat64(t))
		y.Sub(y, u)
		return y, nil
	}
	var err error
	switch routine {
	case "newtonRoot":
		_, err = newton.RunRoot(froot, x0, eps)
	case "newtonCrit":
		_, err = newton.RunCrit(f, x0, eps)
	case "newtonMin":
		_, err = newton.RunMin(f, x0, eps)
	default:
		vh.Fatal("routine not bound for the epsilon class: " + routine)
	}
	return err
}

// exact Newton cycles: m = <<start, c0, c1, ...>>, polynomial c0 + c1 x + ...
func runPolynomial(c *tcase, routine string) error {
	if len(c.M) < 3 {
		vh.Fatal("bad polynomial case")
	}
	x0 := NewDenseFloat64Vector([]float64{float64(c.M[0])})
	co := c.M[1:]
	horner := func(y Scalar, x ConstScalar) {
		y.SetFloat64(float64(co[len(co)-1]))
		for j := len(co) - 2; j >= 0; j-- {
			y.Mul(y, x)
			y.Add(y, ConstFloat64(float64(co[j])))
		}
	}
	froot := func(x ConstVector) (MagicVector, error) {
		y := NullDenseReal64Vector(1)
		horner(y.At(0), x.ConstAt(0))
		return y, nil
	}
	f := func(x ConstVector) (MagicScalar, error) {
		y := NewReal64(0)
		horner(y, x.ConstAt(0))
		return y, nil
	}
	var err error
	switch routine {
	case "newtonRoot":
		_, err = newton.RunRoot(froot, x0)
	case "newtonCrit":
		_, err = newton.RunCrit(f, x0)
	case "newtonMin":
		_, err = newton.RunMin(f, x0)
	default:
		vh.Fatal("routine not bound for the polynomial class: " + routine)
	}
	return err
}

// restricted domain: sum x_i^2 on x_i >= 1/2, error or NaN outside;
// m = <<x0n, x0d, hn, hd>>
func runDomain(c *tcase, routine string) error {
	if len(c.M) != 4 {
		vh.Fatal("bad domain case")
	}
	n := c.N
	start := float64(c.M[0]) / float64(c.M[1])
	h := float64(c.M[2]) / float64(c.M[3])
	x0 := NullDenseFloat64Vector(n)
	for i := range x0 {
		x0[i] = start
	}
	outside := func(v float64) bool { return !(v >= 0.5) }
	f := func(x ConstVector) (MagicScalar, error) {
		y := NewReal64(0)
		t := NewReal64(0)
		out := false
		for i := 0; i < x.Dim(); i++ {
			if outside(x.ConstAt(i).GetFloat64()) {
				out = true
			}
			t.Mul(x.ConstAt(i), x.ConstAt(i))
			y.Add(y, t)
		}
		if out {
			if c.Class == "domain_error" {
				return nil, errors.New("argument outside the domain")
			}
			y.Mul(y, ConstFloat64(math.NaN()))
		}
		return y, nil
	}
	froot := func(x ConstVector) (MagicVector, error) {
		y := NullDenseReal64Vector(x.Dim())
		for i := 0; i < x.Dim(); i++ {
			y.At(i).Set(x.ConstAt(i)) // gradient direction of x^2/2: root at 0, outside the domain
			if outside(x.ConstAt(i).GetFloat64()) {
				if c.Class == "domain_error" {
					return nil, errors.New("argument outside the domain")
				}
				y.At(i).Mul(y.At(i), ConstFloat64(math.NaN()))
			}
		}
		return y, nil
	}
	var err error
	switch routine {
	case "lineSearch":
		// along the descent direction from the start: phi(alpha) = f(x0 - alpha x0)
		phi := func(alpha ConstScalar) (MagicScalar, error) {
			x := NullDenseReal64Vector(n)
			for i := 0; i < n; i++ {
				x.At(i).Mul(alpha, ConstFloat64(-start))
				x.At(i).Add(x.At(i), ConstFloat64(start))
			}
			return f(x)
		}
		_, err = lineSearch.Run(phi, Float64Type)
	case "rprop":
		_, err = rprop.Run(f, x0, 0.01, []float64{1.2, 0.5})
	case "gradientDescent":
		_, err = gradientDescent.Run(f, x0, 0.1)
	case "newtonRoot":
		_, err = newton.RunRoot(froot, x0)
	case "newtonCrit":
		_, err = newton.RunCrit(f, x0)
	case "newtonMin":
		_, err = newton.RunMin(f, x0)
	case "bfgs":
		args := []interface{}{}
		if c.M[2] != c.M[3] {
			b0 := NullDenseFloat64Matrix(n, n)
			for i := 0; i < n; i++ {
				b0.At(i, i).SetFloat64(h)
			}
			args = append(args, bfgs.Hessian{Value: b0})
		}
		_, err = bfgs.Run(f, x0, args...)
	case "adam":
		_, err = adam.Run(f, x0)
	case "rpropGradient", "adamGradient":
		grad := func(x, g DenseFloat64Vector) error {
			for i := range x {
				g[i] = 2 * x[i]
				if outside(x[i]) {
					if c.Class == "domain_error" {
						return errors.New("argument outside the domain")
					}
					g[i] = math.NaN()
				}
			}
			return nil
		}
		if routine == "rpropGradient" {
			_, err = rprop.RunGradient(rprop.DenseGradientF(grad), x0, 0.01, []float64{1.2, 0.5})
		} else {
			_, err = adam.RunGradient(adam.DenseGradientF(grad), x0)
		}
	default:
		vh.Fatal("routine not bound for the domain class: " + routine)
	}
	return err
}

// lineSearch.Run with Parameters{Alpha1, MaxEval} and a Constraints region
func runLineSearch(c *tcase) error {
	if len(c.M) != 5 {
		vh.Fatal("bad line search case")
	}
	alpha1 := float64(c.M[0]) / float64(c.M[1])
	bound := alpha1 * float64(c.M[2]) / float64(c.M[3])
	maxEval := c.M[4]
	phi := func(alpha ConstScalar) (MagicScalar, error) {
		y := NewReal64(0)
		switch c.Obj {
		case "neg_linear":
			y.Neg(alpha)
		case "far_quadratic":
			y.Div(alpha, ConstFloat64(alpha1))
			y.Sub(y, ConstFloat64(10))
			y.Mul(y, y)
		case "quadratic":
			y.Sub(alpha, ConstFloat64(1))
			y.Mul(y, y)
		default:
			vh.Fatal("objective not bound: " + c.Obj)
		}
		return y, nil
	}
	region := func(a ConstScalar) bool {
		switch c.Class {
		case "ls_le":
			return a.GetFloat64() <= bound
		case "ls_lt":
			return a.GetFloat64() < bound
		case "ls_never":
			return false
		case "ls_only_zero":
			return a.GetFloat64() == 0
		}
		vh.Fatal("region not bound: " + c.Class)
		return false
	}
	_, err := lineSearch.Run(phi, Float64Type, lineSearch.Parameters{Alpha1: alpha1, MaxEval: maxEval},
		lineSearch.Constraints{Value: region})
	return err
}

func runMatrix(c *tcase, routine string) error {
	a := caseMatrix(c)
	var err error
	switch routine {
	case "qrAlgorithm":
		_, _, err = qrAlgorithm.Run(a, qrAlgorithm.ComputeU{Value: true})
	case "qrAlgorithmSymmetric":
		_, _, err = qrAlgorithm.Run(a, qrAlgorithm.Symmetric{Value: true}, qrAlgorithm.ComputeU{Value: true})
	case "eigensystem":
		_, _, err = eigensystem.Run(a)
	case "eigensystemSymmetric":
		_, _, err = eigensystem.Run(a, eigensystem.Symmetric{Value: true})
	case "svd":
		_, _, _, err = svd.Run(a, svd.ComputeU{Value: true}, svd.ComputeV{Value: true})
	case "msqrt":
		_, err = msqrt.Run(a)
	case "msqrtInv":
		_, err = msqrtInv.Run(a)
	case "hessenbergReduction":
		_, _, err = hessenbergReduction.Run(a, hessenbergReduction.ComputeU{Value: true})
	case "householderBidiagonalization":
		_, _, _, err = householderBidiagonalization.Run(a, householderBidiagonalization.ComputeU{Value: true}, householderBidiagonalization.ComputeV{Value: true})
	case "householderTridiagonalization":
		_, _, err = householderTridiagonalization.Run(a, householderTridiagonalization.ComputeU{Value: true})
	case "gramSchmidt":
		_, _, err = gramSchmidt.Run(a)
	case "matrixInverse":
		_, err = matrixInverse.Run(a)
	case "cholesky":
		_, _, err = cholesky.Run(a)
	case "determinant":
		_, err = determinant.Run(a)
	default:
		vh.Fatal("routine not bound in the driver: " + routine)
	}
	return err
}

/* ------------------------------------------------------------------ child */

type jline struct {
	E     string `json:"e"`
	ID    int    `json:"id"`
	Ts    int64  `json:"ts,omitempty"`
	Ticks int64  `json:"ticks"`
	Msg   string `json:"msg,omitempty"`
}

// term-child <cases> <from-id> <to-id> <skip: comma separated routine/class> <journal>
func termChild(args []string) {
	if len(args) < 5 {
		vh.Fatal("usage: shapes term-child cases from to skip journal")
	}
	cases := readTermCases(args[0])
	from, _ := strconv.Atoi(args[1])
	to, _ := strconv.Atoi(args[2])
	args = args[1:]
	skip := map[string]bool{}
	for _, s := range strings.Split(args[2], ",") {
		if s != "" {
			skip[s] = true
		}
	}
	j, err := os.OpenFile(args[3], os.O_APPEND|os.O_CREATE|os.O_WRONLY, 0644)
	if err != nil {
		vh.Fatal(err)
	}
	put := func(l jline) {
		b, _ := json.Marshal(l)
		b = append(b, '\n')
		if _, e := j.Write(b); e != nil { // unbuffered: on disk before the call starts
			vh.Fatal(e)
		}
	}
	id := -1
	for _, c := range cases {
		for _, cl := range c.Calls {
			id++
			if id < from || id >= to {
				continue
			}
			if skip[cl.R+"/"+c.Class] || skip[cl.R+"/*"] {
				put(jline{E: "skip", ID: id})
				continue
			}
			t0 := time.Now()
			put(jline{E: "call", ID: id, Ts: t0.UnixNano() / 1e6})
			var rerr error
			msg := vh.Try(func() {
				switch c.Kind {
				case "matrix":
					rerr = runMatrix(c, cl.R)
				case "linesearch":
					rerr = runLineSearch(c)
				case "polynomial":
					rerr = runPolynomial(c, cl.R)
				default:
					rerr = runObjective(c, cl.R)
				}
			})
			ticks := time.Since(t0).Milliseconds()
			switch {
			case msg != "":
				put(jline{E: "panic", ID: id, Ticks: ticks, Msg: msg})
			case rerr != nil:
				m := rerr.Error()
				if len(m) > 120 {
					m = m[:120]
				}
				put(jline{E: "error", ID: id, Ticks: ticks, Msg: m})
			default:
				put(jline{E: "return", ID: id, Ticks: ticks})
			}
		}
	}
	put(jline{E: "done", ID: id})
	j.Close()
}

/* ----------------------------------------------------------------- parent */

type callInfo struct {
	c  *tcase
	ci int
	r  string
	b  int
}

type tevent struct {
	e     string
	id    int
	ticks int64
}

// shared bookkeeping of the partitions
type termState struct {
	mu              sync.Mutex
	calls           []callInfo
	out             *vh.Out
	sigTimeouts     map[string]int
	routineTimeouts map[string]int
	skip            map[string]bool
	outcomes        map[string]map[string]int
	slowest         map[string]int64
	nTimeouts       int
	nSkipped        int
	nExecuted       int
	nFatal          int
	nRetried        int
	children        int
	maxPerSig       int
	maxPerRoutine   int
	maxTotal        int
}

func (st *termState) count(r, e string) {
	if st.outcomes[r] == nil {
		st.outcomes[r] = map[string]int{}
	}
	st.outcomes[r][e]++
}

func (st *termState) skipList() string {
	st.mu.Lock()
	defer st.mu.Unlock()
	skips := []string{}
	for s := range st.skip {
		skips = append(skips, s)
	}
	sort.Strings(skips)
	return strings.Join(skips, ",")
}

// runPartition drives the calls lo..hi-1 in child processes and returns their events.
func (st *termState) runPartition(self, casesPath, journal string, lo, hi int) []tevent {
	var events []tevent
	calls := st.calls
	retried := map[int]bool{}
	from := lo
	for from < hi {
		os.Remove(journal)
		cmd := exec.Command(self, "term-child", casesPath, strconv.Itoa(from), strconv.Itoa(hi), st.skipList(), journal)
		cmd.Stderr = os.Stderr
		if e := cmd.Start(); e != nil {
			vh.Fatal("cannot start child:", e)
		}
		st.mu.Lock()
		st.children++
		st.mu.Unlock()
		exited := make(chan error, 1)
		go func() { exited <- cmd.Wait() }()
		var jf *os.File
		var rd *bufio.Reader
		partial := ""
		open := -1 // id of the journalled call that has not been answered
		var openTs int64
		last := from - 1
		finished := false
		killed := false
		consume := func() {
			if jf == nil {
				f, e := os.Open(journal)
				if e != nil {
					return
				}
				jf = f
				rd = bufio.NewReader(jf)
			}
			for {
				s, e := rd.ReadString('\n')
				partial += s
				if e != nil {
					if e != io.EOF {
						vh.Fatal("journal:", e)
					}
					return
				}
				var l jline
				if e := json.Unmarshal([]byte(partial), &l); e != nil {
					vh.Fatal("bad journal line:", partial)
				}
				partial = ""
				switch l.E {
				case "call":
					open, openTs = l.ID, l.Ts
					events = append(events, tevent{"call", l.ID, 0})
				case "return", "error", "panic":
					if l.ID != open {
						vh.Fatal("journal out of order")
					}
					events = append(events, tevent{l.E, l.ID, l.Ticks})
					r := calls[l.ID].r
					st.mu.Lock()
					st.count(r, l.E)
					if l.Ticks > st.slowest[r] {
						st.slowest[r] = l.Ticks
					}
					st.nExecuted++
					st.mu.Unlock()
					open, last = -1, l.ID
				case "skip":
					st.mu.Lock()
					st.nSkipped++
					st.mu.Unlock()
					last = l.ID
				case "done":
					finished = true
				}
			}
		}
		for {
			hasExited := false
			select {
			case <-exited:
				hasExited = true
			case <-time.After(20 * time.Millisecond):
			}
			consume()
			if hasExited {
				break
			}
			if open >= 0 {
				el := time.Now().UnixNano()/1e6 - openTs
				if el > int64(calls[open].b) {
					cmd.Process.Kill()
					<-exited
					killed = true
					consume() // the answer may have arrived in the meantime
					break
				}
			}
		}
		if jf != nil {
			jf.Close()
		}
		if open >= 0 {
			ci := calls[open]
			ticks := time.Now().UnixNano()/1e6 - openTs
			st.mu.Lock()
			if killed && !retried[open] {
				// The watchdog had to kill the child inside this call.  The machine
				// is shared: before the timeout counts, the same call gets a second
				// attempt in a fresh child (a call that really spins times out
				// again; a call that was merely starved answers now).
				retried[open] = true
				st.nRetried++
				events = events[:len(events)-1] // drop the call event of the first attempt
				st.mu.Unlock()
				from = open
				continue
			}
			if killed {
				events = append(events, tevent{"timeout", open, ticks})
				st.count(ci.r, "timeout")
				st.nTimeouts++
				sig := ci.r + "/" + ci.c.Class
				st.sigTimeouts[sig]++
				st.routineTimeouts[ci.r]++
				vh.Mismatch(st.out, vh.M{"engine": "term", "routine": ci.r, "class": ci.c.Class, "what": "timeout"},
					vh.M{"case": ci.c, "routine": ci.r, "budget_ticks": ci.b, "ticks": ticks, "id": open})
				if st.sigTimeouts[sig] >= st.maxPerSig {
					st.skip[sig] = true
				}
				if st.routineTimeouts[ci.r] >= st.maxPerRoutine {
					st.skip[ci.r+"/*"] = true
				}
				if st.nTimeouts >= st.maxTotal {
					for r := range st.routineTimeouts {
						st.skip[r+"/*"] = true
					}
				}
			} else {
				// the child died by itself inside the call: a fatal runtime error
				// (stack overflow, out of memory) is a loud failure at the call
				events = append(events, tevent{"panic", open, ticks})
				st.count(ci.r, "fatal")
				st.nFatal++
			}
			st.mu.Unlock()
			from = open + 1
			continue
		}
		if !finished {
			// the child died outside a journalled call: our own problem
			vh.Fatal("term child died outside a call after id", last)
		}
		break
	}
	os.Remove(journal)
	return events
}

// term <cases> <trace> <results>
func termParent(args []string) {
	if len(args) < 3 {
		vh.Fatal("usage: shapes term cases trace results")
	}
	cases := readTermCases(args[0])
	var calls []callInfo
	for ci, c := range cases {
		for _, cl := range c.Calls {
			calls = append(calls, callInfo{c, ci, cl.R, cl.B})
		}
	}
	trace := vh.NewOut(args[1])
	out := vh.NewOut(args[2])
	self, err := os.Executable()
	if err != nil {
		vh.Fatal(err)
	}
	st := &termState{calls: calls, out: out, sigTimeouts: map[string]int{}, routineTimeouts: map[string]int{},
		skip: map[string]bool{}, outcomes: map[string]map[string]int{}, slowest: map[string]int64{},
		maxPerSig:     vh.EnvInt("VERIF_TERM_MAX_PER_SIG", 2),
		maxPerRoutine: vh.EnvInt("VERIF_TERM_MAX_PER_ROUTINE", 3),
		maxTotal:      vh.EnvInt("VERIF_TERM_MAX_TIMEOUTS", 8)}
	// contiguous partitions, one child at a time per partition
	np := vh.EnvInt("VERIF_TERM_PARTITIONS", 3)
	if np > len(calls) {
		np = 1
	}
	parts := make([][]tevent, np)
	var wg sync.WaitGroup
	for p := 0; p < np; p++ {
		lo, hi := p*len(calls)/np, (p+1)*len(calls)/np
		wg.Add(1)
		go func(p, lo, hi int) {
			defer wg.Done()
			parts[p] = st.runPartition(self, args[0], fmt.Sprintf("%s.journal%d", args[2], p), lo, hi)
		}(p, lo, hi)
	}
	wg.Wait()
	for _, evs := range parts {
		for _, ev := range evs {
			ci := calls[ev.id]
			trace.Put(vh.M{"e": ev.e, "id": ev.id, "r": ci.r, "class": ci.c.Class, "n": ci.c.N, "ticks": ev.ticks})
		}
	}
	trace.Close()
	sl := vh.M{}
	for r, t := range st.slowest {
		sl[r] = t
	}
	skipped := []string{}
	for s := range st.skip {
		skipped = append(skipped, s)
	}
	sort.Strings(skipped)
	vh.Summary(out, vh.M{"cases": len(cases), "calls": len(calls), "executed": st.nExecuted, "timeouts": st.nTimeouts,
		"skipped_known": st.nSkipped, "fatal": st.nFatal, "children": st.children, "outcomes": st.outcomes, "slowest_ticks": sl,
		"skipped_signatures": skipped, "partitions": np, "retried_after_first_timeout": st.nRetried})
	out.Close()
}
