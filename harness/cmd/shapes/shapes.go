// Part A of C20: replay of the cases printed by spec/Shapes.tla.
//
// Every case (entry point, dimension tuple, index / order arguments, expected
// outcome class, expected result shape) is instantiated for every element type
// and both storages, once on plain objects and once on VIEWS (slices of a larger
// parent whose cells outside the view hold a sentinel).  The driver only
// interprets: it builds the operands, performs the one call through the generic
// interfaces, classifies what happened {ok(shape), error, panic} and compares
// with the class TLC printed.
package main

import (
	"encoding/json"
	"fmt"
	"reflect"
	"os"
	"sort"
	"strings"
	"sync"
	"time"

	. "github.com/pbenner/autodiff"
	"github.com/pbenner/autodiff/algorithm/adam"
	"github.com/pbenner/autodiff/algorithm/backSubstitution"
	"github.com/pbenner/autodiff/algorithm/bfgs"
	"github.com/pbenner/autodiff/algorithm/cholesky"
	"github.com/pbenner/autodiff/algorithm/determinant"
	"github.com/pbenner/autodiff/algorithm/eigensystem"
	"github.com/pbenner/autodiff/algorithm/gaussJordan"
	"github.com/pbenner/autodiff/algorithm/gradientDescent"
	"github.com/pbenner/autodiff/algorithm/gramSchmidt"
	"github.com/pbenner/autodiff/algorithm/hessenbergReduction"
	"github.com/pbenner/autodiff/algorithm/householderBidiagonalization"
	"github.com/pbenner/autodiff/algorithm/householderTridiagonalization"
	"github.com/pbenner/autodiff/algorithm/matrixInverse"
	"github.com/pbenner/autodiff/algorithm/msqrt"
	"github.com/pbenner/autodiff/algorithm/msqrtInv"
	"github.com/pbenner/autodiff/algorithm/newton"
	"github.com/pbenner/autodiff/algorithm/qrAlgorithm"
	"github.com/pbenner/autodiff/algorithm/rprop"
	"github.com/pbenner/autodiff/algorithm/saga"
	"github.com/pbenner/autodiff/algorithm/svd"
	"github.com/pbenner/autodiff/statistics/scalarDistribution"
	"github.com/pbenner/autodiff/statistics/scalarEstimator"
	"github.com/pbenner/threadpool"

	"verifharness/vh"
)

type scase struct {
	Op  string `json:"op"`
	D   []int  `json:"d"`
	A   []int  `json:"a"`
	P   []int  `json:"p"`
	Exp string `json:"exp"`
	Sh  []int  `json:"sh"`
	Val []int  `json:"val"`
}

type kind struct {
	T      ScalarType
	Name   string
	Sparse bool
}

func (k kind) String() string {
	if k.Sparse {
		return "sparse/" + k.Name
	}
	return "dense/" + k.Name
}
func (k kind) storage() string {
	if k.Sparse {
		return "sparse"
	}
	return "dense"
}

var elemTypes = []struct {
	t ScalarType
	n string
}{{Float64Type, "float64"}, {Float32Type, "float32"}, {Real64Type, "real64"}, {Real32Type, "real32"},
	{IntType, "int"}, {Int64Type, "int64"}, {Int32Type, "int32"}, {Int16Type, "int16"}, {Int8Type, "int8"}}

func allKinds() []kind {
	r := []kind{}
	for _, sp := range []bool{false, true} {
		for _, e := range elemTypes {
			r = append(r, kind{e.t, e.n, sp})
		}
	}
	return r
}

// builder creates the operands of one instantiation.
type builder struct {
	view     bool
	sentinel float64
	vparents []Vector
	mparents []Matrix
	mdims    [][2]int
}

func rawVec(k kind, n int) Vector {
	if k.Sparse {
		return NullSparseVector(k.T, n)
	}
	return NullDenseVector(k.T, n)
}
func rawMat(k kind, n, m int) Matrix {
	if k.Sparse {
		return NullSparseMatrix(k.T, n, m)
	}
	return NullDenseMatrix(k.T, n, m)
}

// vec returns a vector of kind k with n distinct non-zero cells base+1..base+n.
func (b *builder) vec(k kind, n int, base int) Vector {
	var v Vector
	if b.view {
		p := rawVec(k, n+2)
		for i := 0; i < n+2; i++ {
			p.At(i).SetFloat64(b.sentinel)
		}
		b.vparents = append(b.vparents, p)
		v = p.Slice(1, n+1)
	} else {
		v = rawVec(k, n)
	}
	for i := 0; i < n; i++ {
		v.At(i).SetFloat64(float64(base + i + 1))
	}
	return v
}

func (b *builder) mat(k kind, n, m int, base int) Matrix {
	var a Matrix
	if b.view {
		p := rawMat(k, n+2, m+2)
		for i := 0; i < n+2; i++ {
			for j := 0; j < m+2; j++ {
				p.At(i, j).SetFloat64(b.sentinel)
			}
		}
		b.mparents = append(b.mparents, p)
		b.mdims = append(b.mdims, [2]int{n, m})
		a = p.Slice(1, n+1, 1, m+1)
	} else {
		a = rawMat(k, n, m)
	}
	for i := 0; i < n; i++ {
		for j := 0; j < m; j++ {
			a.At(i, j).SetFloat64(float64(base + i*m + j + 1))
		}
	}
	return a
}

// parentsDirty reports whether a parent cell outside a view lost its sentinel.
func (b *builder) parentsDirty() (dirty bool) {
	msg := vh.Try(func() {
		for _, p := range b.vparents {
			n := p.Dim()
			if p.ConstAt(0).GetFloat64() != b.sentinel || p.ConstAt(n-1).GetFloat64() != b.sentinel {
				dirty = true
			}
		}
		for x, p := range b.mparents {
			n, m := b.mdims[x][0], b.mdims[x][1]
			for i := 0; i < n+2; i++ {
				for j := 0; j < m+2; j++ {
					if i >= 1 && i <= n && j >= 1 && j <= m {
						continue
					}
					if p.ConstAt(i, j).GetFloat64() != b.sentinel {
						dirty = true
					}
				}
			}
		}
	})
	if msg != "" {
		dirty = true
	}
	return
}

// content of a container as far as its own shape allows; a panic while reading
// (inconsistent header, negative dimension) is part of the observation.
func vecContent(v ConstVector) (shape []int, vals []float64, bad string) {
	bad = vh.Try(func() {
		n := v.Dim()
		shape = []int{n}
		for i := 0; i < n; i++ {
			vals = append(vals, v.ConstAt(i).GetFloat64())
		}
	})
	return
}
func matContent(a ConstMatrix) (shape []int, vals []float64, bad string) {
	bad = vh.Try(func() {
		n, m := a.Dims()
		shape = []int{n, m}
		for i := 0; i < n; i++ {
			for j := 0; j < m; j++ {
				vals = append(vals, a.ConstAt(i, j).GetFloat64())
			}
		}
	})
	return
}

func isNil(x interface{}) bool {
	if x == nil {
		return true
	}
	v := reflect.ValueOf(x)
	switch v.Kind() {
	case reflect.Ptr, reflect.Map, reflect.Slice, reflect.Interface, reflect.Func:
		return v.IsNil()
	}
	return false
}

func content(x interface{}) (shape []int, vals []float64, bad string) {
	if isNil(x) {
		return nil, nil, ""
	}
	switch o := x.(type) {
	case ConstMatrix:
		return matContent(o)
	case ConstVector:
		return vecContent(o)
	case ConstScalar:
		return []int{}, []float64{o.GetFloat64()}, ""
	case bool:
		if o {
			return []int{}, []float64{1}, ""
		}
		return []int{}, []float64{0}, ""
	case [2]int:
		return []int{o[0], o[1]}, nil, ""
	}
	return nil, nil, fmt.Sprintf("unknown result type %T", x)
}

// observation of one call
type obs struct {
	Class      string    `json:"class"` // ok | error | panic
	Msg        string    `json:"msg,omitempty"`
	Shape      []int     `json:"shape"`
	Res        []float64 `json:"res,omitempty"`
	ResBad     string    `json:"res_bad,omitempty"`
	RecvBefore []float64 `json:"recv_before,omitempty"`
	RecvAfter  []float64 `json:"recv_after,omitempty"`
	RecvBad    string    `json:"recv_bad,omitempty"`
	Dirty      bool      `json:"parent_dirty,omitempty"`
}

// call is one prepared invocation: recv (may be nil) is the object whose
// content is compared before/after, f performs the call and returns the object
// that carries the result shape.
type call struct {
	recv interface{}
	f    func() (interface{}, error)
}

func spd(a Matrix, n, m int) {
	// well conditioned fill for the algorithm entry points: symmetric,
	// strictly diagonally dominant (hence positive definite) when square
	for i := 0; i < n; i++ {
		for j := 0; j < m; j++ {
			if i == j {
				a.At(i, j).SetFloat64(float64(4 + i))
			} else {
				a.At(i, j).SetFloat64(1)
			}
		}
	}
}

func ints(p []int) []int {
	r := make([]int, len(p))
	copy(r, p)
	return r
}

// prepare builds the operands of case c for receiver kind k / operand kind ko.
// It returns nil when the operation does not exist for that kind.
func prepare(c *scase, k, ko kind, b *builder) *call {
	d := c.D
	a := c.A
	switch c.Op {
	case "VaddV", "VsubV", "VmulV", "VdivV":
		r, x, y := b.vec(k, d[0], 0), b.vec(ko, d[1], 10), b.vec(ko, d[2], 20)
		return &call{r, func() (interface{}, error) {
			switch c.Op {
			case "VaddV":
				return r.VaddV(x, y), nil
			case "VsubV":
				return r.VsubV(x, y), nil
			case "VmulV":
				return r.VmulV(x, y), nil
			}
			return r.VdivV(x, y), nil
		}}
	case "VaddS", "VsubS", "VmulS", "VdivS":
		r, x := b.vec(k, d[0], 0), b.vec(ko, d[1], 10)
		s := NewScalar(ko.T, 2)
		return &call{r, func() (interface{}, error) {
			switch c.Op {
			case "VaddS":
				return r.VaddS(x, s), nil
			case "VsubS":
				return r.VsubS(x, s), nil
			case "VmulS":
				return r.VmulS(x, s), nil
			}
			return r.VdivS(x, s), nil
		}}
	case "VSet":
		r, x := b.vec(k, d[0], 0), b.vec(ko, d[1], 10)
		return &call{r, func() (interface{}, error) { r.Set(x); return r, nil }}
	case "VdotV":
		x, y := b.vec(k, d[0], 0), b.vec(ko, d[1], 10)
		s := NullScalar(k.T)
		return &call{nil, func() (interface{}, error) { return s.VdotV(x, y), nil }}
	case "VEquals":
		x, y := b.vec(k, d[0], 0), b.vec(ko, d[1], 10)
		return &call{x, func() (interface{}, error) { return x.Equals(y, 1e-8), nil }}
	case "MdotV":
		r, m, x := b.vec(k, d[0], 0), b.mat(ko, d[1], d[2], 10), b.vec(ko, d[3], 30)
		return &call{r, func() (interface{}, error) { return r.MdotV(m, x), nil }}
	case "VdotM":
		r, x, m := b.vec(k, d[0], 0), b.vec(ko, d[1], 30), b.mat(ko, d[2], d[3], 10)
		return &call{r, func() (interface{}, error) { return r.VdotM(x, m), nil }}
	case "MdotV.alias.Self", "MdotV.alias.Slice", "MdotV.alias.ConstSlice",
		"VdotM.alias.Self", "VdotM.alias.Slice", "VdotM.alias.ConstSlice":
		n := d[0]
		r, m := b.vec(k, n, 0), b.mat(ko, n, n, 10)
		var x ConstVector = r
		switch {
		case strings.HasSuffix(c.Op, ".ConstSlice"):
			x = r.ConstSlice(0, n)
		case strings.HasSuffix(c.Op, ".Slice"):
			x = r.Slice(0, n)
		}
		if strings.HasPrefix(c.Op, "MdotV") {
			return &call{nil, func() (interface{}, error) { return r.MdotV(m, x), nil }}
		}
		return &call{nil, func() (interface{}, error) { return r.VdotM(x, m), nil }}
	case "VAt":
		v := b.vec(k, d[0], 0)
		return &call{v, func() (interface{}, error) { return v.At(a[0]), nil }}
	case "VConstAt":
		v := b.vec(k, d[0], 0)
		return &call{v, func() (interface{}, error) { return v.ConstAt(a[0]), nil }}
	case "VSwap":
		v := b.vec(k, d[0], 0)
		return &call{v, func() (interface{}, error) { v.Swap(a[0], a[1]); return v, nil }}
	case "VSlice":
		v := b.vec(k, d[0], 0)
		return &call{v, func() (interface{}, error) { return v.Slice(a[0], a[1]), nil }}
	case "VConstSlice":
		v := b.vec(k, d[0], 0)
		return &call{v, func() (interface{}, error) { return v.ConstSlice(a[0], a[1]), nil }}
	case "VAsMatrix":
		v := b.vec(k, d[0], 0)
		return &call{v, func() (interface{}, error) { return v.AsMatrix(a[0], a[1]), nil }}
	case "VAsConstMatrix":
		v := b.vec(k, d[0], 0)
		return &call{v, func() (interface{}, error) { return v.AsConstMatrix(a[0], a[1]), nil }}
	case "AppendScalar":
		v := b.vec(k, d[0], 0)
		ss := []Scalar{}
		for i := 0; i < d[1]; i++ {
			ss = append(ss, NewScalar(k.T, float64(40+i)))
		}
		return &call{v, func() (interface{}, error) { return v.AppendScalar(ss...), nil }}
	case "AppendVector":
		v, w := b.vec(k, d[0], 0), b.vec(ko, d[1], 10)
		return &call{v, func() (interface{}, error) { return v.AppendVector(w), nil }}
	case "VPermute":
		v := b.vec(k, d[0], 0)
		pi := ints(c.P)
		return &call{v, func() (interface{}, error) { return v, v.Permute(pi) }}
	case "PermuteRows", "PermuteColumns", "SymmetricPermutation":
		m := b.mat(k, d[0], d[1], 0)
		pi := ints(c.P)
		return &call{m, func() (interface{}, error) {
			switch c.Op {
			case "PermuteRows":
				return m, m.PermuteRows(pi)
			case "PermuteColumns":
				return m, m.PermuteColumns(pi)
			}
			return m, m.SymmetricPermutation(pi)
		}}
	case "MaddM", "MsubM", "MmulM", "MdivM", "MdotM":
		r, x, y := b.mat(k, d[0], d[1], 0), b.mat(ko, d[2], d[3], 10), b.mat(ko, d[4], d[5], 20)
		return &call{r, func() (interface{}, error) {
			switch c.Op {
			case "MaddM":
				return r.MaddM(x, y), nil
			case "MsubM":
				return r.MsubM(x, y), nil
			case "MmulM":
				return r.MmulM(x, y), nil
			case "MdivM":
				return r.MdivM(x, y), nil
			}
			return r.MdotM(x, y), nil
		}}
	case "MaddS", "MsubS", "MmulS", "MdivS":
		r, x := b.mat(k, d[0], d[1], 0), b.mat(ko, d[2], d[3], 10)
		s := NewScalar(ko.T, 2)
		return &call{r, func() (interface{}, error) {
			switch c.Op {
			case "MaddS":
				return r.MaddS(x, s), nil
			case "MsubS":
				return r.MsubS(x, s), nil
			case "MmulS":
				return r.MmulS(x, s), nil
			}
			return r.MdivS(x, s), nil
		}}
	case "MSet":
		r, x := b.mat(k, d[0], d[1], 0), b.mat(ko, d[2], d[3], 10)
		return &call{r, func() (interface{}, error) { r.Set(x); return r, nil }}
	case "MEquals":
		r, x := b.mat(k, d[0], d[1], 0), b.mat(ko, d[2], d[3], 10)
		return &call{r, func() (interface{}, error) { return r.Equals(x, 1e-8), nil }}
	case "Outer":
		r, x, y := b.mat(k, d[0], d[1], 0), b.vec(ko, d[2], 10), b.vec(ko, d[3], 20)
		return &call{r, func() (interface{}, error) { return r.Outer(x, y), nil }}
	case "Mtrace":
		m := b.mat(k, d[0], d[1], 0)
		s := NullScalar(k.T)
		return &call{m, func() (interface{}, error) {
			if r := s.Mtrace(m); isNil(r) {
				return nil, nil
			}
			return s, nil
		}}
	case "Diag":
		m := b.mat(k, d[0], d[1], 0)
		return &call{m, func() (interface{}, error) { return m.Diag(), nil }}
	case "ConstDiag":
		m := b.mat(k, d[0], d[1], 0)
		return &call{m, func() (interface{}, error) { return m.ConstDiag(), nil }}
	case "Row":
		m := b.mat(k, d[0], d[1], 0)
		return &call{m, func() (interface{}, error) { return m.Row(a[0]), nil }}
	case "ConstRow":
		m := b.mat(k, d[0], d[1], 0)
		return &call{m, func() (interface{}, error) { return m.ConstRow(a[0]), nil }}
	case "Col":
		m := b.mat(k, d[0], d[1], 0)
		return &call{m, func() (interface{}, error) { return m.Col(a[0]), nil }}
	case "ConstCol":
		m := b.mat(k, d[0], d[1], 0)
		return &call{m, func() (interface{}, error) { return m.ConstCol(a[0]), nil }}
	case "MAt":
		m := b.mat(k, d[0], d[1], 0)
		return &call{m, func() (interface{}, error) { return m.At(a[0], a[1]), nil }}
	case "MConstAt":
		m := b.mat(k, d[0], d[1], 0)
		return &call{m, func() (interface{}, error) { return m.ConstAt(a[0], a[1]), nil }}
	case "MSwap":
		m := b.mat(k, d[0], d[1], 0)
		return &call{m, func() (interface{}, error) { m.Swap(a[0], a[1], a[2], a[3]); return m, nil }}
	case "SwapRows":
		m := b.mat(k, d[0], d[1], 0)
		return &call{m, func() (interface{}, error) { return m, m.SwapRows(a[0], a[1]) }}
	case "SwapColumns":
		m := b.mat(k, d[0], d[1], 0)
		return &call{m, func() (interface{}, error) { return m, m.SwapColumns(a[0], a[1]) }}
	case "MSlice":
		m := b.mat(k, d[0], d[1], 0)
		return &call{m, func() (interface{}, error) { return m.Slice(a[0], a[1], a[2], a[3]), nil }}
	case "MConstSlice":
		m := b.mat(k, d[0], d[1], 0)
		return &call{m, func() (interface{}, error) { return m.ConstSlice(a[0], a[1], a[2], a[3]), nil }}
	case "T":
		m := b.mat(k, d[0], d[1], 0)
		return &call{m, func() (interface{}, error) { return m.T(), nil }}
	case "Tip":
		m := b.mat(k, d[0], d[1], 0)
		return &call{nil, func() (interface{}, error) { m.Tip(); return m, nil }}
	case "SetIdentity":
		m := b.mat(k, d[0], d[1], 0)
		return &call{nil, func() (interface{}, error) { m.SetIdentity(); return m, nil }}
	case "AsVector":
		m := b.mat(k, d[0], d[1], 0)
		return &call{m, func() (interface{}, error) { return m.AsVector(), nil }}
	case "AsConstVector":
		m := b.mat(k, d[0], d[1], 0)
		return &call{m, func() (interface{}, error) { return m.AsConstVector(), nil }}
	case "Jacobian":
		r := b.mat(k, d[0], d[1], 0)
		nk, np := d[2], d[3]
		x := NullDenseMagicVector(Real64Type, nk)
		for i := 0; i < nk; i++ {
			x.At(i).SetFloat64(float64(i + 1))
		}
		f := func(x ConstVector) ConstVector {
			y := NullDenseReal64Vector(np)
			for i := 0; i < np; i++ {
				y.At(i).SetFloat64(float64(i))
				for j := 0; j < x.Dim(); j++ {
					y.At(i).Add(y.At(i), x.ConstAt(j))
				}
			}
			return y
		}
		return &call{r, func() (interface{}, error) { return r.Jacobian(f, x), nil }}
	case "Hessian":
		r := b.mat(k, d[0], d[1], 0)
		nk := d[2]
		x := NullDenseMagicVector(Real64Type, nk)
		for i := 0; i < nk; i++ {
			x.At(i).SetFloat64(float64(i + 1))
		}
		f := func(x ConstVector) ConstScalar {
			y := NewReal64(1)
			t := NewReal64(0)
			for j := 0; j < x.Dim(); j++ {
				t.Mul(x.ConstAt(j), x.ConstAt(j))
				y.Add(y, t)
			}
			return y
		}
		return &call{r, func() (interface{}, error) { return r.Hessian(f, x), nil }}
	}
	return nil
}

func variablesOf(v MagicVector, order int) error {
	switch w := v.(type) {
	case DenseReal64Vector:
		return w.Variables(order)
	case DenseReal32Vector:
		return w.Variables(order)
	}
	return fmt.Errorf("no Variables method on %T", v)
}

// shrinking re-allocation: the scalar first holds derivatives of n1 variables
// up to order 2 (every slot non-zero), is then re-allocated for n2 < n1
// variables, and only then the one accessor call of the case is observed
func prepareShrink(c *scase, t ScalarType) *call {
	parts := strings.Split(c.Op, ".")
	if len(parts) != 3 {
		vh.Fatal("bad op " + c.Op)
	}
	way, acc := parts[1], parts[2]
	n1, n2, o2 := c.D[0], c.D[1], c.A[0]
	var x MagicScalar
	var vec MagicVector
	if way == "Variables" {
		vec = NullDenseMagicVector(t, n1)
		if err := variablesOf(vec, 2); err != nil {
			vh.Fatal(err)
		}
		x = vec.MagicAt(0)
	} else {
		x = newMagic(t, 3)
		x.Alloc(n1, 2)
	}
	for k := 0; k < n1; k++ {
		x.SetDerivative(k, float64(100+k))
		for l := 0; l < n1; l++ {
			x.SetHessian(k, l, float64(200+10*k+l))
		}
	}
	switch way {
	case "Alloc":
		x.Alloc(n2, o2)
	case "SetVariable":
		if err := x.SetVariable(0, n2, o2); err != nil {
			vh.Fatal(err)
		}
	case "Variables":
		if err := variablesOf(vec.MagicSlice(0, n2), o2); err != nil {
			vh.Fatal(err)
		}
	case "Set":
		b := newMagic(t, 3)
		if err := b.SetVariable(0, n2, o2); err != nil {
			vh.Fatal(err)
		}
		x.Set(b)
	case "Receiver":
		a := newMagic(t, 3)
		if err := a.SetVariable(0, n2, o2); err != nil {
			vh.Fatal(err)
		}
		x.Mul(a, a)
	default:
		vh.Fatal("way not bound: " + way)
	}
	if x.GetN() != n2 || x.GetOrder() != o2 {
		vh.Fatal(fmt.Sprintf("shrink history %s did not lead to N=%d order=%d but N=%d order=%d", way, n2, o2, x.GetN(), x.GetOrder()))
	}
	a := c.A
	switch acc {
	case "GetDerivative":
		return &call{nil, func() (interface{}, error) { return ConstFloat64(x.GetDerivative(a[1])), nil }}
	case "SetDerivative":
		return &call{nil, func() (interface{}, error) { x.SetDerivative(a[1], 7); return nil, nil }}
	case "GetHessian":
		return &call{nil, func() (interface{}, error) { return ConstFloat64(x.GetHessian(a[1], a[2])), nil }}
	case "SetHessian":
		return &call{nil, func() (interface{}, error) { x.SetHessian(a[1], a[2], 7); return nil, nil }}
	}
	vh.Fatal("accessor not bound: " + acc)
	return nil
}

func newMagic(t ScalarType, v float64) MagicScalar {
	if t == Real32Type {
		return NewReal32(float32(v))
	}
	return NewReal64(v)
}

// derivative-order API: exists for the Real types only
func prepareReal(c *scase, t ScalarType) *call {
	d, a := c.D, c.A
	n := d[0]
	mk := func(N, order int) MagicScalar {
		x := newMagic(t, 3)
		if order > 0 || N > 0 {
			x.Alloc(N, order)
		}
		return x
	}
	no := func(x MagicScalar) interface{} { return [2]int{x.GetN(), x.GetOrder()} }
	if strings.HasPrefix(c.Op, "RShrink.") {
		return prepareShrink(c, t)
	}
	switch c.Op {
	case "RAlloc":
		x := newMagic(t, 3)
		return &call{nil, func() (interface{}, error) { x.Alloc(n, a[0]); return no(x), nil }}
	case "RSetVariable":
		x := newMagic(t, 3)
		return &call{nil, func() (interface{}, error) {
			if err := x.SetVariable(a[0], n, a[1]); err != nil {
				return nil, err
			}
			return no(x), nil
		}}
	case "RVariables":
		v := NullDenseMagicVector(t, n)
		return &call{nil, func() (interface{}, error) {
			var err error
			switch w := v.(type) {
			case DenseReal64Vector:
				err = w.Variables(a[0])
			case DenseReal32Vector:
				err = w.Variables(a[0])
			}
			if err != nil {
				return nil, err
			}
			r := [2]int{n, a[0]}
			for i := 0; i < n; i++ {
				if v.MagicAt(i).GetN() != n || v.MagicAt(i).GetOrder() != a[0] {
					r = [2]int{v.MagicAt(i).GetN(), v.MagicAt(i).GetOrder()}
				}
			}
			return r, nil
		}}
	case "RVariablesFunc":
		xs := []MagicScalar{}
		for i := 0; i < n; i++ {
			xs = append(xs, newMagic(t, float64(i)))
		}
		return &call{nil, func() (interface{}, error) {
			if err := Variables(a[0], xs...); err != nil {
				return nil, err
			}
			r := [2]int{n, a[0]}
			for i := 0; i < n; i++ {
				if xs[i].GetN() != n || xs[i].GetOrder() != a[0] {
					r = [2]int{xs[i].GetN(), xs[i].GetOrder()}
				}
			}
			return r, nil
		}}
	case "RGetDerivative":
		x := mk(n, a[0])
		return &call{nil, func() (interface{}, error) { return ConstFloat64(x.GetDerivative(a[1])), nil }}
	case "RGetHessian":
		x := mk(n, a[0])
		return &call{nil, func() (interface{}, error) { return ConstFloat64(x.GetHessian(a[1], a[2])), nil }}
	case "CopyGradient":
		g := NullDenseVector(Float64Type, d[0])
		x := mk(d[1], 1)
		return &call{g, func() (interface{}, error) { return g, CopyGradient(g, x) }}
	case "CopyHessian":
		h := NullDenseMatrix(Float64Type, d[0], d[1])
		x := mk(d[2], 2)
		return &call{h, func() (interface{}, error) { return h, CopyHessian(h, x) }}
	}
	return nil
}

// option values: the admissible values are documented by the routines' own
// argument checks; the calls use tiny well-behaved problems and an explicit
// iteration limit so that an accepted call returns at once
type bogusOption struct{}

func prepareOpt(c *scase) *call {
	if !strings.HasPrefix(c.Op, "opt.") {
		return nil
	}
	d, a := c.D, c.A
	quad := func(x ConstVector) (MagicScalar, error) {
		y := NewReal64(0)
		t := NewReal64(0)
		for i := 0; i < x.Dim(); i++ {
			t.Sub(x.ConstAt(i), ConstFloat64(1))
			t.Mul(t, t)
			y.Add(y, t)
		}
		return y, nil
	}
	root := func(x ConstVector) (MagicVector, error) {
		y := NullDenseReal64Vector(x.Dim())
		for i := 0; i < x.Dim(); i++ {
			y.At(i).Sub(x.ConstAt(i), ConstFloat64(1))
		}
		return y, nil
	}
	x0 := func(n int) DenseFloat64Vector {
		v := NullDenseFloat64Vector(n)
		for i := range v {
			v[i] = 2
		}
		return v
	}
	sagaF := func(n int) saga.Objective1Dense {
		basis := make([]DenseFloat64Vector, n)
		for i := range basis {
			basis[i] = NullDenseFloat64Vector(n)
			basis[i][i] = 1
		}
		return func(i int, x DenseFloat64Vector) (float64, float64, DenseFloat64Vector, error) {
			w := x[i] - 1
			return w * w / 2, w, basis[i], nil
		}
	}
	A := func(n int) *DenseFloat64Matrix {
		m := NullDenseFloat64Matrix(n, n)
		spd(m, n, n)
		return m
	}
	switch {
	case c.Op == "opt.rprop.eta":
		eta := make([]float64, d[0])
		for i := range eta {
			eta[i] = []float64{1.2, 0.5, 0.5}[i]
		}
		return &call{nil, func() (interface{}, error) {
			_, err := rprop.Run(quad, x0(1), 0.01, eta, rprop.MaxIterations{Value: 3})
			return nil, err
		}}
	case c.Op == "opt.bfgs.Hessian":
		h := NullDenseFloat64Matrix(d[1], d[2])
		h.SetIdentity()
		return &call{nil, func() (interface{}, error) {
			x, err := bfgs.Run(quad, x0(d[0]), bfgs.Hessian{Value: h}, bfgs.MaxIterations{Value: 3})
			if err != nil {
				return nil, err
			}
			return x, nil
		}}
	case c.Op == "opt.saga.regularization":
		return &call{nil, func() (interface{}, error) {
			_, _, err := saga.Run(sagaF(2), 2, x0(2), saga.MaxIterations{Value: 2},
				saga.L1Regularization{Value: float64(a[0])}, saga.L2Regularization{Value: float64(a[1])},
				saga.TikhonovRegularization{Value: float64(a[2])})
			return nil, err
		}}
	case c.Op == "opt.determinant.LogScale":
		return &call{nil, func() (interface{}, error) {
			_, err := determinant.Run(A(2), determinant.PositiveDefinite{Value: a[0] == 1}, determinant.LogScale{Value: a[1] == 1})
			return nil, err
		}}
	case strings.HasPrefix(c.Op, "opt.InSituByValue."):
		r := strings.TrimPrefix(c.Op, "opt.InSituByValue.")
		return &call{nil, func() (interface{}, error) {
			var err error
			switch r {
			case "qrAlgorithm":
				_, _, err = qrAlgorithm.Run(A(2), qrAlgorithm.InSitu{})
			case "svd":
				_, _, _, err = svd.Run(A(2), svd.InSitu{})
			case "hessenbergReduction":
				_, _, err = hessenbergReduction.Run(A(2), hessenbergReduction.InSitu{})
			case "householderBidiagonalization":
				_, _, _, err = householderBidiagonalization.Run(A(2), householderBidiagonalization.InSitu{})
			case "householderTridiagonalization":
				_, _, err = householderTridiagonalization.Run(A(2), householderTridiagonalization.InSitu{})
			case "matrixInverse":
				_, err = matrixInverse.Run(A(2), matrixInverse.InSitu{})
			case "cholesky":
				_, _, err = cholesky.Run(A(2), cholesky.InSitu{})
			case "determinant":
				_, err = determinant.Run(A(2), determinant.InSitu{})
			case "backSubstitution":
				_, err = backSubstitution.Run(A(2), x0(2), backSubstitution.InSitu{})
			case "newtonRoot":
				_, err = newton.RunRoot(root, x0(2), newton.InSitu{}, newton.MaxIterations{Value: 2})
			case "newtonMin":
				_, err = newton.RunMin(quad, x0(2), newton.InSitu{}, newton.MaxIterations{Value: 2})
			case "saga":
				_, _, err = saga.Run(sagaF(2), 2, x0(2), saga.InSitu{}, saga.MaxIterations{Value: 2})
			default:
				vh.Fatal("routine not bound: " + r)
			}
			return nil, err
		}}
	case strings.HasPrefix(c.Op, "opt.UnknownOption."):
		r := strings.TrimPrefix(c.Op, "opt.UnknownOption.")
		return &call{nil, func() (interface{}, error) {
			var err error
			switch r {
			case "rprop":
				_, err = rprop.Run(quad, x0(1), 0.01, []float64{1.2, 0.5}, rprop.MaxIterations{Value: 2}, bogusOption{})
			case "bfgs":
				_, err = bfgs.Run(quad, x0(1), bfgs.MaxIterations{Value: 2}, bogusOption{})
			case "gradientDescent":
				stop := gradientDescent.Hook{Value: func([]float64, ConstVector, ConstScalar) bool { return true }}
				_, err = gradientDescent.Run(quad, x0(1), 0.1, stop, bogusOption{})
			case "adam":
				_, err = adam.Run(quad, x0(1), adam.MaxIterations{Value: 2}, bogusOption{})
			case "saga":
				_, _, err = saga.Run(sagaF(2), 2, x0(2), saga.MaxIterations{Value: 2}, bogusOption{})
			case "determinant":
				_, err = determinant.Run(A(2), bogusOption{})
			case "cholesky":
				_, _, err = cholesky.Run(A(2), bogusOption{})
			case "gaussJordan":
				X := NullDenseFloat64Matrix(2, 2)
				X.SetIdentity()
				err = gaussJordan.Run(A(2), X, x0(2), bogusOption{})
			default:
				vh.Fatal("routine not bound: " + r)
			}
			return nil, err
		}}
	case strings.HasPrefix(c.Op, "opt.newton.HessianModification."):
		parts := strings.SplitN(c.Op, ".", 5)
		routine, val := parts[3], parts[4]
		if val == "<empty>" {
			val = ""
		}
		hm := newton.HessianModification{Value: val}
		return &call{nil, func() (interface{}, error) {
			switch routine {
			case "newtonRoot":
				return newton.RunRoot(root, x0(2), hm, newton.MaxIterations{Value: 3})
			case "newtonCrit":
				return newton.RunCrit(quad, x0(2), hm, newton.MaxIterations{Value: 3})
			case "newtonMin":
				return newton.RunMin(quad, x0(2), hm, newton.MaxIterations{Value: 3})
			}
			vh.Fatal("routine not bound: " + routine)
			return nil, nil
		}}
	case strings.HasPrefix(c.Op, "opt.NumericEstimator.Method."):
		val := strings.TrimPrefix(c.Op, "opt.NumericEstimator.Method.")
		if val == "<empty>" {
			val = ""
		}
		return &call{nil, func() (interface{}, error) {
			dist, err := scalarDistribution.NewGammaDistribution(NewFloat64(2.0), NewFloat64(2.0))
			if err != nil {
				return nil, err
			}
			est, err := scalarEstimator.NewNumericEstimator(dist)
			if err != nil {
				return nil, err
			}
			est.Method = val
			est.MaxIterations = 3
			data := NewDenseFloat64Vector([]float64{0.5, 1.0, 1.5, 2.0, 0.7, 1.2})
			return nil, est.EstimateOnData(data, nil, threadpool.Nil())
		}}
	case strings.HasPrefix(c.Op, "opt.InSitu."):
		return prepareInSitu(c, A, x0, quad, root)
	case c.Op == "opt.qrAlgorithm.InSitu.H":
		in := &qrAlgorithm.InSitu{H: NullDenseFloat64Matrix(d[1], d[2]), InitializeH: true}
		return &call{nil, func() (interface{}, error) { h, _, e := qrAlgorithm.Run(A(d[0]), in, qrAlgorithm.Symmetric{Value: true}); return h, e }}
	case c.Op == "opt.backSubstitution.InSitu.X":
		in := &backSubstitution.InSitu{X: NullDenseFloat64Vector(d[1])}
		return &call{nil, func() (interface{}, error) { return backSubstitution.Run(A(d[0]), x0(d[0]), in) }}
	case c.Op == "opt.gramSchmidt.InSitu.Q":
		in := gramSchmidt.InSitu{Q: NullDenseFloat64Matrix(d[1], d[2])}
		return &call{nil, func() (interface{}, error) { q, _, e := gramSchmidt.Run(A(d[0]), in); return q, e }}
	}
	vh.Fatal("option case not bound in the driver: " + c.Op)
	return nil
}

// a caller-supplied / re-used InSitu work space member of size wn x wm (wn)
// for an n x n input; the returned object is the result that corresponds to
// the member
func prepareInSitu(c *scase, A func(int) *DenseFloat64Matrix, x0 func(int) DenseFloat64Vector,
	quad func(ConstVector) (MagicScalar, error), root func(ConstVector) (MagicVector, error)) *call {
	parts := strings.Split(c.Op, ".")
	routine, member := parts[2], parts[3]
	d := c.D
	n, f := d[0], c.A[0]
	wm := func() Matrix { return NullDenseFloat64Matrix(d[1], d[2]) }
	wv := func() Vector { return NullDenseFloat64Vector(d[1]) }
	a := A(n)
	type res = interface{}
	var run func() (res, error)
	switch routine + "." + member {
	case "qrAlgorithm.H", "qrAlgorithm.U", "qrAlgorithm.T4":
		in := &qrAlgorithm.InSitu{InitializeH: f&1 != 0, InitializeU: f&2 != 0}
		switch member {
		case "H":
			in.H = wm()
		case "U":
			in.U = wm()
		default:
			in.T4 = wv()
		}
		run = func() (res, error) {
			h, u, e := qrAlgorithm.Run(a, in, qrAlgorithm.Symmetric{Value: f&4 != 0}, qrAlgorithm.ComputeU{Value: true})
			if member == "U" {
				return u, e
			}
			return h, e
		}
	case "eigensystem.Eigenvalues", "eigensystem.Eigenvectors":
		in := &eigensystem.InSitu{}
		if member == "Eigenvalues" {
			in.Eigenvalues = wv()
		} else {
			in.Eigenvectors = wm()
		}
		run = func() (res, error) {
			v, m, e := eigensystem.Run(a, in, eigensystem.Symmetric{Value: f&1 != 0})
			if member == "Eigenvalues" {
				return v, e
			}
			return m, e
		}
	case "cholesky.L", "cholesky.D":
		in := &cholesky.InSitu{}
		ldl := member == "D" || f&1 != 0
		if member == "L" {
			in.L = wm()
		} else {
			in.D = wm()
		}
		run = func() (res, error) {
			l, dd, e := cholesky.Run(a, in, cholesky.LDL{Value: ldl})
			if member == "D" {
				return dd, e
			}
			return l, e
		}
	case "matrixInverse.Id", "matrixInverse.A", "matrixInverse.B":
		in := &matrixInverse.InSitu{}
		switch member {
		case "Id":
			in.Id = wm()
		case "A":
			in.A = wm()
		default:
			in.B = wv()
		}
		run = func() (res, error) {
			return matrixInverse.Run(a, in, matrixInverse.PositiveDefinite{Value: f&1 != 0})
		}
	case "svd.A", "svd.U", "svd.V":
		in := &svd.InSitu{}
		switch member {
		case "A":
			in.A = wm()
		case "U":
			in.U = wm()
		default:
			in.V = wm()
		}
		run = func() (res, error) {
			h, u, v, e := svd.Run(a, in, svd.ComputeU{Value: true}, svd.ComputeV{Value: true})
			switch member {
			case "U":
				return u, e
			case "V":
				return v, e
			}
			return h, e
		}
	case "householderBidiagonalization.A", "householderBidiagonalization.U", "householderBidiagonalization.V":
		in := &householderBidiagonalization.InSitu{}
		switch member {
		case "A":
			in.A = wm()
		case "U":
			in.U = wm()
		default:
			in.V = wm()
		}
		run = func() (res, error) {
			h, u, v, e := householderBidiagonalization.Run(a, in, householderBidiagonalization.ComputeU{Value: true},
				householderBidiagonalization.ComputeV{Value: true})
			switch member {
			case "U":
				return u, e
			case "V":
				return v, e
			}
			return h, e
		}
	case "householderTridiagonalization.A", "householderTridiagonalization.U":
		in := &householderTridiagonalization.InSitu{}
		if member == "A" {
			in.A = wm()
		} else {
			in.U = wm()
		}
		run = func() (res, error) {
			h, u, e := householderTridiagonalization.Run(a, in, householderTridiagonalization.ComputeU{Value: true})
			if member == "U" {
				return u, e
			}
			return h, e
		}
	case "hessenbergReduction.H", "hessenbergReduction.U":
		in := &hessenbergReduction.InSitu{}
		if member == "H" {
			in.H = wm()
		} else {
			in.U = wm()
		}
		run = func() (res, error) {
			h, u, e := hessenbergReduction.Run(a, in, hessenbergReduction.ComputeU{Value: true})
			if member == "U" {
				return u, e
			}
			return h, e
		}
	case "backSubstitution.A", "backSubstitution.X":
		in := &backSubstitution.InSitu{}
		if member == "A" {
			in.A = wm()
			// the work space replaces the clone of the input: give it the input's content
			vh.Try(func() { in.A.Set(a) })
		} else {
			in.X = wv()
		}
		run = func() (res, error) {
			x, e := backSubstitution.Run(a, x0(n), in)
			if member == "A" && e == nil {
				return [2]int{x.Dim(), x.Dim()}, nil
			}
			return x, e
		}
	case "gramSchmidt.Q", "gramSchmidt.R":
		in := gramSchmidt.InSitu{}
		if member == "Q" {
			in.Q = wm()
		} else {
			in.R = wm()
		}
		run = func() (res, error) {
			q, r, e := gramSchmidt.Run(a, in)
			if member == "R" {
				return r, e
			}
			return q, e
		}
	case "newtonRoot.T1", "newtonMin.T1":
		in := &newton.InSitu{T1: wv()}
		run = func() (res, error) {
			if routine == "newtonRoot" {
				return newton.RunRoot(root, x0(n), in, newton.MaxIterations{Value: 3})
			}
			return newton.RunMin(quad, x0(n), in, newton.MaxIterations{Value: 3})
		}
	default:
		vh.Fatal("InSitu member not bound in the driver: " + c.Op)
	}
	return &call{nil, func() (interface{}, error) {
		r, e := run()
		if e != nil {
			return nil, e
		}
		if isNil(r) {
			return nil, fmt.Errorf("nil result without error")
		}
		return r, nil
	}}
}

func prepareAlgo(c *scase) *call {
	if strings.HasPrefix(c.Op, "opt.") {
		return prepareOpt(c)
	}
	d := c.D
	if len(d) < 2 {
		return nil
	}
	n, m := d[0], d[1]
	A := NullDenseFloat64Matrix(n, m)
	spd(A, n, m)
	switch c.Op {
	case "matrixInverse":
		return &call{A, func() (interface{}, error) { return matrixInverse.Run(A) }}
	case "cholesky":
		return &call{A, func() (interface{}, error) { l, _, e := cholesky.Run(A); return l, e }}
	case "determinant":
		return &call{A, func() (interface{}, error) { return determinant.Run(A) }}
	case "qrAlgorithm":
		return &call{A, func() (interface{}, error) { h, _, e := qrAlgorithm.Run(A); return h, e }}
	case "qrAlgorithmSymmetric":
		return &call{A, func() (interface{}, error) {
			h, _, e := qrAlgorithm.Run(A, qrAlgorithm.Symmetric{Value: true})
			return h, e
		}}
	case "hessenbergReduction":
		return &call{A, func() (interface{}, error) { h, _, e := hessenbergReduction.Run(A); return h, e }}
	case "householderTridiagonalization":
		return &call{A, func() (interface{}, error) { h, _, e := householderTridiagonalization.Run(A); return h, e }}
	case "householderBidiagonalization":
		return &call{A, func() (interface{}, error) { h, _, _, e := householderBidiagonalization.Run(A); return h, e }}
	case "svd":
		return &call{A, func() (interface{}, error) { h, _, _, e := svd.Run(A); return h, e }}
	case "gramSchmidt":
		return &call{A, func() (interface{}, error) { q, _, e := gramSchmidt.Run(A); return q, e }}
	case "msqrt":
		// msqrt works on the caller's matrix (C12): no before/after comparison
		return &call{nil, func() (interface{}, error) { return msqrt.Run(A) }}
	case "msqrtInv":
		return &call{nil, func() (interface{}, error) { return msqrtInv.Run(A) }}
	case "eigensystem":
		return &call{A, func() (interface{}, error) { v, _, e := eigensystem.Run(A); return v, e }}
	case "eigensystemSymmetric":
		return &call{A, func() (interface{}, error) {
			v, _, e := eigensystem.Run(A, eigensystem.Symmetric{Value: true})
			return v, e
		}}
	case "backSubstitution":
		bv := NullDenseFloat64Vector(d[2])
		for i := range bv {
			bv[i] = float64(i + 1)
		}
		return &call{A, func() (interface{}, error) { return backSubstitution.Run(A, bv) }}
	case "gaussJordan":
		X := NullDenseFloat64Matrix(d[2], d[3])
		X.SetIdentity()
		bv := NullDenseFloat64Vector(d[4])
		for i := range bv {
			bv[i] = float64(i + 1)
		}
		// gaussJordan works in place on a, x and b by contract
		return &call{nil, func() (interface{}, error) { return X, gaussJordan.Run(A, X, bv) }}
	}
	return nil
}

func eqInts(a, b []int) bool {
	if len(a) != len(b) {
		return false
	}
	for i := range a {
		if a[i] != b[i] {
			return false
		}
	}
	return true
}
func eqVals(a []float64, b []int) bool {
	if len(a) != len(b) {
		return false
	}
	for i := range a {
		if a[i] != float64(b[i]) {
			return false
		}
	}
	return true
}
func eqFloats(a, b []float64) bool {
	if len(a) != len(b) {
		return false
	}
	for i := range a {
		if a[i] != b[i] && !(a[i] != a[i] && b[i] != b[i]) {
			return false
		}
	}
	return true
}

func observe(cl *call, b *builder) obs {
	var o obs
	if cl.recv != nil {
		_, o.RecvBefore, _ = content(cl.recv)
	}
	var res interface{}
	var err error
	msg := vh.Try(func() { res, err = cl.f() })
	switch {
	case msg != "":
		o.Class, o.Msg = "panic", msg
	case err != nil:
		o.Class, o.Msg = "error", err.Error()
		if len(o.Msg) > 200 {
			o.Msg = o.Msg[:200]
		}
	default:
		o.Class = "ok"
		o.Shape, o.Res, o.ResBad = content(res)
	}
	if cl.recv != nil {
		_, o.RecvAfter, o.RecvBad = content(cl.recv)
	}
	if b != nil && b.view {
		o.Dirty = b.parentsDirty()
	}
	return o
}

type mismatchKey struct{ op, storage, what, mode string }
type mismatchAgg struct {
	types  map[string]bool
	n        int
	detail   vh.M
	examples []string
	seen     map[string]bool
	score    int
}

// per-case result, merged by the collector
type caseResult struct {
	ncalls  int
	reports []caseReport
	info    map[string]int
	classes map[string]int
	sample  []vh.M
}
type caseReport struct {
	key    mismatchKey
	tname  string
	detail vh.M
}

// operations that are not meaningful on a view (Tip re-arranges the whole
// storage of the owner)
var noViewOps = map[string]bool{"Tip": true}

func runCase(c *scase, idx int, kinds []kind) *caseResult {
	res := &caseResult{info: map[string]int{}, classes: map[string]int{}}
	info := res.info
	report := func(c *scase, k, ko kind, mode, what string, o obs, extra vh.M) {
		d := vh.M{"case": c, "kind": k.String(), "operand_kind": ko.String(), "mode": mode, "observed": o}
		for x, y := range extra {
			d[x] = y
		}
		res.reports = append(res.reports, caseReport{mismatchKey{c.Op, k.storage(), what, mode}, k.Name, d})
	}
	type inst struct {
		k, ko kind
		mk    func(b *builder) *call
		views bool
	}
	var insts []inst
	switch {
	case prepareAlgo(c) != nil:
		k := kind{Float64Type, "float64", false}
		insts = append(insts, inst{k, k, func(b *builder) *call { return prepareAlgo(c) }, false})
	case strings.HasPrefix(c.Op, "R") && c.Op != "Row" || c.Op == "CopyGradient" || c.Op == "CopyHessian":
		for _, e := range elemTypes[2:4] {
			t := e.t
			k := kind{t, e.n, false}
			insts = append(insts, inst{k, k, func(b *builder) *call { return prepareReal(c, t) }, false})
		}
	default:
		views := !noViewOps[c.Op]
		for _, k := range kinds {
			k := k
			insts = append(insts, inst{k, k, func(b *builder) *call { return prepare(c, k, k, b) }, views})
		}
		// mixed storages (Float64): dense receiver / sparse operands and vice versa
		df, sf := kinds[0], kinds[9]
		insts = append(insts, inst{df, sf, func(b *builder) *call { return prepare(c, df, sf, b) }, views})
		insts = append(insts, inst{sf, df, func(b *builder) *call { return prepare(c, sf, df, b) }, views})
	}
	for _, in := range insts {
		modes := []string{"plain"}
		if in.views {
			modes = append(modes, "view")
		}
		for _, mode := range modes {
			var o obs
			var o2 *obs
			if mode == "plain" {
				b := &builder{}
				var cl *call
				if msg := vh.Try(func() { cl = in.mk(b) }); msg != "" {
					vh.Fatal("cannot build operands of case", idx, c.Op, in.k.String(), msg)
				}
				if cl == nil {
					vh.Fatal("operation not bound in the driver: " + c.Op)
				}
				o = observe(cl, b)
			} else {
				// the same call on views, twice with different sentinels around
				// the views: whatever differs depends on cells outside a view
				var os [2]obs
				skip := false
				for x, s := range []float64{99, 77} {
					b := &builder{view: true, sentinel: s}
					var cl *call
					if msg := vh.Try(func() { cl = in.mk(b) }); msg != "" {
						// building the operands on views failed: a defect of view
						// construction itself is C10's business
						info["view_operands_not_buildable"]++
						skip = true
						break
					}
					os[x] = observe(cl, b)
				}
				if skip {
					continue
				}
				o = os[0]
				o2 = &os[1]
			}
			res.ncalls++
			res.classes[c.Exp+"->"+o.Class]++
			accepted := o.Class == "ok"
			shapeOK := eqInts(o.Shape, c.Sh) && o.ResBad == ""
			leak := false
			if o2 != nil {
				leak = o.Class != o2.Class || !eqInts(o.Shape, o2.Shape) || !eqFloats(o.Res, o2.Res) ||
					!eqFloats(o.RecvAfter, o2.RecvAfter) || o.ResBad != o2.ResBad
			}
			switch c.Exp {
			case "reject":
				if accepted {
					what := "silent_accept"
					if leak {
						what = "silent_accept_reads_outside_view"
					} else if o.Dirty {
						what = "silent_accept_writes_outside_view"
					}
					report(c, in.k, in.ko, mode, what, o, vh.M{"second_run": o2})
				} else if o.RecvBefore != nil && (!eqFloats(o.RecvBefore, o.RecvAfter) || o.RecvBad != "") {
					info["receiver_modified_on_reject"]++
					info["receiver_modified_on_reject:"+c.Op]++
				} else if o.Dirty {
					info["parent_modified_on_reject"]++
				}
			case "ok", "any":
				if accepted && shapeOK && len(c.Val) > 0 && mode == "plain" && !eqVals(o.Res, c.Val) {
					// a call that returned with another value than the contract prescribes:
					// a read of stale storage (RShrink), a product computed from operands
					// the call itself had overwritten (aliasing)
					what := "wrong_value"
					if strings.HasPrefix(c.Op, "RShrink.") {
						what = "stale_value"
					}
					report(c, in.k, in.ko, mode, what, o, nil)
				} else if accepted {
					if !shapeOK {
						if mode == "plain" {
							report(c, in.k, in.ko, mode, "wrong_shape", o, nil)
						} else {
							info["view_wrong_shape_on_valid_call(C10)"]++
						}
					} else if mode == "view" && (leak || o.Dirty) {
						info["view_dependency_on_valid_call(C10)"]++
						info["view_dependency_on_valid_call(C10):"+c.Op+":"+in.k.storage()]++
					}
				} else if c.Exp == "ok" {
					if mode == "plain" {
						report(c, in.k, in.ko, mode, "valid_call_rejected", o, nil)
					} else {
						info["view_valid_call_rejected(C10)"]++
						info["view_valid_call_rejected(C10):"+c.Op+":"+in.k.storage()]++
					}
				}
			}
			if c.Exp == "reject" && mode == "plain" && idx%997 == 0 && len(res.sample) == 0 {
				res.sample = append(res.sample, vh.M{"case": c, "kind": in.k.String(), "observed": o})
			}
		}
	}
	return res
}

// shapesReplay: replay <cases.ndjson> <results.ndjson> [only-op]
//
// Cases are executed by a few worker goroutines.  A call that does not return
// within the per-case limit is an observation (what = timeout): the stuck
// goroutine is abandoned (it cannot be killed), a fresh worker takes its place
// and the process exits at the end.
func shapesReplay(args []string) {
	if len(args) < 2 {
		vh.Fatal("usage: shapes replay cases results [op]")
	}
	only := ""
	if len(args) > 2 {
		only = args[2]
	}
	out := vh.NewOut(args[1])
	kinds := allKinds()
	var cases []*scase
	err := vh.EachLine(args[0], func(line []byte) error {
		c := &scase{}
		if e := json.Unmarshal(line, c); e != nil {
			return fmt.Errorf("bad case: %v: %.200s", e, line)
		}
		if only == "" || c.Op == only {
			cases = append(cases, c)
		}
		return nil
	})
	if err != nil {
		vh.Fatal(err)
	}
	limit := time.Duration(vh.EnvInt("VERIF_SHAPES_LIMIT_S", 30)) * time.Second
	nworkers := vh.EnvInt("VERIF_SHAPES_WORKERS", 4)
	type slot struct {
		idx   int
		start time.Time
		dead  bool
	}
	var mu sync.Mutex
	next := 0
	slots := []*slot{}
	done := make(chan struct {
		s *slot
		r *caseResult
	}, 64)
	var worker func(s *slot)
	worker = func(s *slot) {
		for {
			mu.Lock()
			if s.dead || next >= len(cases) {
				s.idx = -1
				mu.Unlock()
				done <- struct {
					s *slot
					r *caseResult
				}{s, nil}
				return
			}
			i := next
			next++
			s.idx, s.start = i, time.Now()
			mu.Unlock()
			r := runCase(cases[i], i, kinds)
			mu.Lock()
			dead := s.dead
			s.idx = -1
			mu.Unlock()
			if dead {
				return // the result of an abandoned case is not used
			}
			done <- struct {
				s *slot
				r *caseResult
			}{s, r}
		}
	}
	spawn := func() {
		s := &slot{idx: -1}
		mu.Lock()
		slots = append(slots, s)
		mu.Unlock()
		go worker(s)
	}
	for i := 0; i < nworkers; i++ {
		spawn()
	}
	agg := map[mismatchKey]*mismatchAgg{}
	info := map[string]int{}
	opsSeen := map[string]int{}
	classes := map[string]int{}
	ncases, ncalls, ntimeouts, live := 0, 0, 0, nworkers
	var sample []vh.M
	tick := time.NewTicker(500 * time.Millisecond)
	for live > 0 {
		select {
		case d := <-done:
			if d.r == nil {
				live--
				continue
			}
			r := d.r
			ncases++
			ncalls += r.ncalls
			for k, v := range r.info {
				info[k] += v
			}
			for k, v := range r.classes {
				classes[k] += v
			}
			if len(sample) < 3 {
				sample = append(sample, r.sample...)
			}
			for _, rp := range r.reports {
				ag := agg[rp.key]
				if ag == nil {
					ag = &mismatchAgg{types: map[string]bool{}, detail: rp.detail, seen: map[string]bool{}, score: -1}
					agg[rp.key] = ag
				}
				// keep the most telling example: the largest smallest dimension
				if c, ok := rp.detail["case"].(*scase); ok {
					sc, sum := 1000, 0
					for _, x := range c.D {
						if x < sc {
							sc = x
						}
						sum += x
					}
					if sc*100+sum > ag.score {
						ag.score = sc*100 + sum
						ag.detail = rp.detail
					}
				}
				ag.types[rp.tname] = true
				ag.n++
				if c, ok := rp.detail["case"].(*scase); ok && len(ag.examples) < 12 {
					e := fmt.Sprint(c.D, c.A, c.P)
					if !ag.seen[e] {
						ag.seen[e] = true
						ag.examples = append(ag.examples, e)
					}
				}
			}
		case <-tick.C:
			mu.Lock()
			for _, s := range slots {
				if !s.dead && s.idx >= 0 && time.Since(s.start) > limit {
					s.dead = true
					c := cases[s.idx]
					ntimeouts++
					vh.Mismatch(out, vh.M{"engine": "shapes", "op": c.Op, "storage": "any", "what": "timeout", "mode": "any", "types": "any"},
						vh.M{"case": c, "limit_s": limit.Seconds()})
					live--
					if ntimeouts <= 8 {
						live++
						s2 := &slot{idx: -1}
						slots = append(slots, s2)
						go worker(s2)
					}
				}
			}
			mu.Unlock()
		}
	}
	for _, c := range cases {
		opsSeen[c.Op]++
	}
	keys := make([]mismatchKey, 0, len(agg))
	for k := range agg {
		keys = append(keys, k)
	}
	sort.Slice(keys, func(i, j int) bool { return fmt.Sprint(keys[i]) < fmt.Sprint(keys[j]) })
	for _, k := range keys {
		ag := agg[k]
		ts := []string{}
		for t := range ag.types {
			ts = append(ts, t)
		}
		sort.Strings(ts)
		types := strings.Join(ts, ",")
		if len(ts) == len(elemTypes) {
			types = "all"
		}
		ag.detail["occurrences"] = ag.n
		ag.detail["examples_d_a_p"] = ag.examples
		vh.Mismatch(out, vh.M{"engine": "shapes", "op": k.op, "storage": k.storage, "what": k.what, "mode": k.mode, "types": types}, ag.detail)
	}
	vh.Summary(out, vh.M{"cases": ncases, "cases_total": len(cases), "timeouts": ntimeouts, "calls": ncalls, "ops": opsSeen,
		"classes": classes, "info": info, "sample": sample})
	out.Close()
	os.Exit(0) // abandoned goroutines may still be spinning
}
