// Command shapes is the conformance driver of C20 ("every routine terminates
// and fails loudly on invalid use").
//
//	shapes replay <cases.ndjson> <results.ndjson> [op]      part A, cases of spec/Shapes.tla
//	shapes term <cases.ndjson> <trace.ndjson> <results.ndjson> part B, parent: watchdog + journal
//	shapes term-child <cases.ndjson> <from> <journal>          part B, child: executes the calls
package main

import (
	"os"

	"verifharness/vh"
)

func main() {
	if len(os.Args) < 2 {
		vh.Fatal("usage: shapes replay|term|term-child ...")
	}
	switch os.Args[1] {
	case "replay":
		shapesReplay(os.Args[2:])
	case "term":
		termParent(os.Args[2:])
	case "term-child":
		termChild(os.Args[2:])
	default:
		vh.Fatal("unknown sub-command", os.Args[1])
	}
}
