package exprlib

import "math"

// Independent implementations of the special functions that appear in the
// specification's differentiation table, so that the oracle never calls the
// library under test (github.com/pbenner/autodiff/special).

// Digamma: recurrence psi(x) = psi(x+1) - 1/x up to x >= 12, then the
// asymptotic series; reflection for x < 0.  Returns the value and a bound on
// the magnitude of the addends (for the error model).
func Digamma(x float64) (float64, float64) {
	if math.IsNaN(x) || math.IsInf(x, -1) {
		return math.NaN(), math.NaN()
	}
	if math.IsInf(x, 1) {
		return x, x
	}
	if x <= 0 {
		if x == math.Floor(x) {
			return math.NaN(), math.NaN() // pole
		}
		// psi(x) = psi(1-x) - pi/tan(pi x)
		v, m := Digamma(1 - x)
		c := math.Pi / math.Tan(math.Pi*x)
		return v - c, m + math.Abs(c)
	}
	s, m := 0.0, 0.0
	for x < 12 {
		s -= 1 / x
		m += 1 / x
		x++
	}
	x2 := 1 / (x * x)
	// Bernoulli: 1/12, 1/120, 1/252, 1/240, 1/132, 691/32760, 1/12
	t := x2 * (1.0/12 - x2*(1.0/120-x2*(1.0/252-x2*(1.0/240-x2*(1.0/132-x2*(691.0/32760-x2/12))))))
	v := s + math.Log(x) - 0.5/x - t
	return v, m + math.Abs(math.Log(x)) + 1
}

// Trigamma: recurrence psi1(x) = psi1(x+1) + 1/x^2, asymptotic series, reflection.
func Trigamma(x float64) (float64, float64) {
	if math.IsNaN(x) || math.IsInf(x, -1) {
		return math.NaN(), math.NaN()
	}
	if math.IsInf(x, 1) {
		return 0, 0
	}
	if x <= 0 {
		if x == math.Floor(x) {
			return math.NaN(), math.NaN()
		}
		// psi1(1-x) + psi1(x) = pi^2 / sin^2(pi x)
		v, m := Trigamma(1 - x)
		s := math.Sin(math.Pi * x)
		c := math.Pi * math.Pi / (s * s)
		return c - v, m + c
	}
	s := 0.0
	for x < 12 {
		s += 1 / (x * x)
		x++
	}
	x2 := 1 / (x * x)
	// 1/x + 1/(2x^2) + sum B_2k / x^(2k+1)
	t := x2 * (1.0/6 - x2*(1.0/30-x2*(1.0/42-x2*(1.0/30-x2*(5.0/66-x2*(691.0/2730-x2*7.0/6))))))
	v := s + 1/x + 0.5*x2 + t/x
	return v, v
}

// GammaP is the regularised lower incomplete gamma function P(a, x), a > 0, x >= 0
// (series for x < a+1, Lentz continued fraction for Q otherwise).
func GammaP(a, x float64) float64 {
	if math.IsNaN(a) || math.IsNaN(x) || a <= 0 || x < 0 {
		return math.NaN()
	}
	if x == 0 {
		return 0
	}
	if math.IsInf(x, 1) || math.IsInf(a, 1) {
		return math.NaN() // limits are not evaluation points
	}
	lg, _ := math.Lgamma(a)
	if x < a+1 {
		ap, del, sum := a, 1/a, 1/a
		for n := 0; n < 2000; n++ {
			ap++
			del *= x / ap
			sum += del
			if math.Abs(del) < math.Abs(sum)*1e-17 {
				break
			}
		}
		return sum * math.Exp(-x+a*math.Log(x)-lg)
	}
	const tiny = 1e-300
	b := x + 1 - a
	c := 1 / tiny
	d := 1 / b
	h := d
	for i := 1; i < 2000; i++ {
		an := -float64(i) * (float64(i) - a)
		b += 2
		d = an*d + b
		if math.Abs(d) < tiny {
			d = tiny
		}
		c = b + an/c
		if math.Abs(c) < tiny {
			c = tiny
		}
		d = 1 / d
		del := d * c
		h *= del
		if math.Abs(del-1) < 1e-16 {
			break
		}
	}
	q := math.Exp(-x+a*math.Log(x)-lg) * h
	return 1 - q
}

// BesselI is the modified Bessel function of the first kind I_v(x) for x >= 0 by
// its power series (all addends are positive for x > 0, v > -1; for negative
// non-integer v the reciprocal gamma function takes care of the signs).
func BesselI(v, x float64) float64 {
	if math.IsNaN(v) || math.IsNaN(x) || x < 0 || math.IsInf(x, 0) {
		return math.NaN()
	}
	if v < 0 && v == math.Floor(v) {
		v = -v // I_{-n} = I_n
	}
	if x == 0 {
		if v == 0 {
			return 1
		}
		if v > 0 {
			return 0
		}
		return math.NaN()
	}
	h := x / 2
	h2 := h * h
	// term_m = h^(2m+v) / (m! Gamma(m+v+1)), computed by recurrence from the first
	// index at which Gamma(m+v+1) is finite and non-zero
	sum := 0.0
	for m0 := 0; m0 < 400; m0++ {
		g := m0f(v, m0)
		if g == 0 {
			continue // 1/Gamma = 0 at a pole
		}
		lf, _ := math.Lgamma(float64(m0) + 1)
		term := math.Exp((2*float64(m0)+v)*math.Log(h)-lf) * g
		sum = term
		for m := m0 + 1; m < m0+2000; m++ {
			den := float64(m) * (float64(m) + v)
			if den == 0 {
				// cannot continue the recurrence through a pole: restart after it
				rest := BesselTail(v, h, m)
				return sum + rest
			}
			term *= h2 / den
			sum += term
			if math.Abs(term) < math.Abs(sum)*1e-18 {
				break
			}
		}
		return sum
	}
	return math.NaN()
}

// m0f returns 1/Gamma(m+v+1) (0 at the poles of Gamma).
func m0f(v float64, m int) float64 {
	a := float64(m) + v + 1
	if a <= 0 && a == math.Floor(a) {
		return 0
	}
	g := math.Gamma(a)
	if math.IsInf(g, 0) {
		return 0
	}
	return 1 / g
}

// BesselTail sums the series from index m on (direct evaluation of every addend).
func BesselTail(v, h float64, m int) float64 {
	s := 0.0
	for k := m; k < m+600; k++ {
		g := m0f(v, k)
		if g == 0 {
			continue
		}
		lf, _ := math.Lgamma(float64(k) + 1)
		t := math.Exp((2*float64(k)+v)*math.Log(h)-lf) * g
		s += t
		if math.Abs(t) < math.Abs(s)*1e-18 && k > m+3 {
			break
		}
	}
	return s
}
