// Package exprlib interprets the symbolic terms printed by spec/Expr.tla.
//
// The specification owns WHAT is computed (the meaning of every operation and
// the differentiation table); this package only evaluates the leaves of a term
// with Go's math package (float64), together with a running bound on the
// absolute rounding error from which the comparison tolerance is derived.
package exprlib

import (
	"encoding/json"
	"fmt"
	"strings"
)

// Term is one node of a term tree.  Tag is one of
// q ninf pi x z u b ite   (see spec/Expr.tla).
type Term struct {
	Tag  string
	Fn   string  // unary function or binary operation
	N, D float64 // rational constant
	I    int     // variable index (1-based)
	A, B *Term   // operands (u: A; b: A, B; ite: A < B)
	T, E *Term   // ite branches
	size int
}

// Parse decodes the JSON array form of a term.
func Parse(raw json.RawMessage) (*Term, error) {
	var v interface{}
	if err := json.Unmarshal(raw, &v); err != nil {
		return nil, err
	}
	return FromValue(v)
}

func FromValue(v interface{}) (*Term, error) {
	a, ok := v.([]interface{})
	if !ok || len(a) == 0 {
		return nil, fmt.Errorf("term is not a non-empty array: %v", v)
	}
	tag, ok := a[0].(string)
	if !ok {
		return nil, fmt.Errorf("term tag is not a string: %v", a[0])
	}
	num := func(i int) (float64, error) {
		if i >= len(a) {
			return 0, fmt.Errorf("term %s too short", tag)
		}
		f, ok := a[i].(float64)
		if !ok {
			return 0, fmt.Errorf("term %s: number expected at %d", tag, i)
		}
		return f, nil
	}
	sub := func(i int) (*Term, error) {
		if i >= len(a) {
			return nil, fmt.Errorf("term %s too short", tag)
		}
		return FromValue(a[i])
	}
	t := &Term{Tag: tag}
	var err error
	switch tag {
	case "q":
		if t.N, err = num(1); err != nil {
			return nil, err
		}
		if t.D, err = num(2); err != nil {
			return nil, err
		}
		if t.D == 0 {
			return nil, fmt.Errorf("zero denominator")
		}
		t.size = 1
	case "ninf", "pi":
		t.size = 1
	case "x":
		f, e := num(1)
		if e != nil {
			return nil, e
		}
		t.I = int(f)
		t.size = 1
	case "z":
		// a scalar re-activated as variable I; N is the identifier of the leaf
		f, e := num(1)
		if e != nil {
			return nil, e
		}
		t.I = int(f)
		if t.N, err = num(2); err != nil {
			return nil, err
		}
		t.size = 1
	case "u":
		if len(a) != 3 {
			return nil, fmt.Errorf("bad unary term")
		}
		t.Fn, _ = a[1].(string)
		if t.A, err = sub(2); err != nil {
			return nil, err
		}
		t.size = 1 + t.A.size
	case "b":
		if len(a) != 4 {
			return nil, fmt.Errorf("bad binary term")
		}
		t.Fn, _ = a[1].(string)
		if t.A, err = sub(2); err != nil {
			return nil, err
		}
		if t.B, err = sub(3); err != nil {
			return nil, err
		}
		t.size = 1 + t.A.size + t.B.size
	case "ite":
		if len(a) != 5 {
			return nil, fmt.Errorf("bad ite term")
		}
		if t.A, err = sub(1); err != nil {
			return nil, err
		}
		if t.B, err = sub(2); err != nil {
			return nil, err
		}
		if t.T, err = sub(3); err != nil {
			return nil, err
		}
		if t.E, err = sub(4); err != nil {
			return nil, err
		}
		t.size = 1 + t.A.size + t.B.size + t.T.size + t.E.size
	default:
		return nil, fmt.Errorf("unknown term tag %q", tag)
	}
	return t, nil
}

// Size is the number of nodes.
func (t *Term) Size() int { return t.size }

// IsZeroConst reports whether the term is the literal constant 0.
func (t *Term) IsZeroConst() bool { return t.Tag == "q" && t.N == 0 }

// String renders the term in prefix form (used as a key for tie conditions
// and in diagnostics).
func (t *Term) String() string {
	var sb strings.Builder
	t.write(&sb)
	return sb.String()
}

func (t *Term) write(sb *strings.Builder) {
	switch t.Tag {
	case "q":
		if t.D == 1 {
			fmt.Fprintf(sb, "%g", t.N)
		} else {
			fmt.Fprintf(sb, "%g/%g", t.N, t.D)
		}
	case "ninf":
		sb.WriteString("-inf")
	case "pi":
		sb.WriteString("pi")
	case "x":
		fmt.Fprintf(sb, "x%d", t.I)
	case "z":
		fmt.Fprintf(sb, "z%d@%g", t.I, t.N)
	case "u":
		sb.WriteString(t.Fn)
		sb.WriteByte('(')
		t.A.write(sb)
		sb.WriteByte(')')
	case "b":
		sb.WriteString(t.Fn)
		sb.WriteByte('(')
		t.A.write(sb)
		sb.WriteByte(',')
		t.B.write(sb)
		sb.WriteByte(')')
	case "ite":
		sb.WriteString("if(")
		t.A.write(sb)
		sb.WriteByte('<')
		t.B.write(sb)
		sb.WriteByte(',')
		t.T.write(sb)
		sb.WriteByte(',')
		t.E.write(sb)
		sb.WriteByte(')')
	}
}
