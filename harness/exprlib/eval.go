package exprlib

import (
	"math"
)

// Env is the evaluation context of one term at one point.
type Env struct {
	X []float64 // values of x_1.. (X[0] is x_1); from ZBase on the values of re-activated leaves
	U float64   // unit roundoff of the scalar type under test (2^-52 or 2^-23)
	// TieSide selects the choice made where the specification does not choose:
	// sgn at 0 evaluates to TieSide (-1, 0 or +1, the sub-gradients the library
	// could pick), ite with equal operands takes the first branch for TieSide >= 0.
	TieSide int
	// outputs
	Ties   map[string]bool // distinct tie conditions met
	MaxAbs float64         // largest finite magnitude of any node
	MinAbs float64         // smallest non-zero magnitude of any node
	Nodes  int
	// Overflow: some operation produced an infinity from finite operands
	// (overflow or a pole); the value of the enclosing term is then not trusted.
	Overflow bool
}

func NewEnv(x []float64, u float64, side int) *Env {
	return &Env{X: x, U: u, TieSide: side, Ties: map[string]bool{}, MinAbs: math.Inf(1)}
}

// ZBase is the index in Env.X at which the values of the re-activated leaves
// <<"z", i, id>> start: leaf id is X[ZBase+id-1] (x_1.. occupy X[0..n-1], n <= ZBase).
const ZBase = 8

// Res is a value with a bound on its absolute error (first-order running error
// analysis with unit roundoff Env.U at every node).
type Res struct {
	V, E float64
}

func (r Res) Finite() bool {
	return !math.IsNaN(r.V) && !math.IsInf(r.V, 0) && !math.IsNaN(r.E) && !math.IsInf(r.E, 0)
}

const tieFactor = 4.0

func (env *Env) note(v float64) {
	env.Nodes++
	a := math.Abs(v)
	if !math.IsInf(a, 0) && !math.IsNaN(a) {
		if a > env.MaxAbs {
			env.MaxAbs = a
		}
		if a != 0 && a < env.MinAbs {
			env.MinAbs = a
		}
	}
}

// shift returns the largest deviation of f over [a-e, a+e] sampled at the ends.
func shift(f func(float64) float64, a, e, v float64) float64 {
	if e == 0 {
		return 0
	}
	if math.IsInf(a, 0) {
		return 0
	}
	d1 := math.Abs(f(a+e) - v)
	d2 := math.Abs(f(a-e) - v)
	if math.IsNaN(d1) || math.IsNaN(d2) {
		return math.Inf(1)
	}
	return math.Max(d1, d2)
}

func lgammaPos(x float64) float64 {
	v, s := math.Lgamma(x)
	if s < 0 {
		return math.NaN() // log of a negative number
	}
	return v
}

func isOneConst(t *Term) bool { return t.Tag == "q" && t.N == t.D }

// Eval evaluates the term.
func (env *Env) Eval(t *Term) Res {
	u := env.U
	var r Res
	switch t.Tag {
	case "q":
		v := t.N / t.D
		e := 0.0
		if fr, _ := math.Frexp(t.D); fr != 0.5 || math.Abs(t.N) >= 1<<24 {
			e = u * math.Abs(v) // not a dyadic rational: rounded
		}
		r = Res{v, e}
	case "ninf":
		r = Res{math.Inf(-1), 0}
	case "pi":
		r = Res{math.Pi, u * math.Pi}
	case "x":
		if t.I < 1 || t.I > len(env.X) {
			r = Res{math.NaN(), 0}
		} else {
			r = Res{env.X[t.I-1], 0}
		}
	case "z":
		// value of re-activated leaf number N: stored behind the variables
		k := ZBase + int(t.N) - 1
		if k < ZBase || k >= len(env.X) {
			r = Res{math.NaN(), 0}
		} else {
			r = Res{env.X[k], 0}
		}
	case "u":
		r = env.evalUnary(t)
	case "b":
		r = env.evalBinary(t)
	case "ite":
		a := env.Eval(t.A)
		b := env.Eval(t.B)
		first := a.V < b.V
		if a.V == b.V || math.Abs(a.V-b.V) <= tieFactor*(a.E+b.E) {
			env.Ties["ite:"+t.A.String()+"<"+t.B.String()] = true
			first = env.TieSide >= 0
		}
		if math.IsNaN(a.V) || math.IsNaN(b.V) {
			r = Res{math.NaN(), 0}
		} else if first {
			r = env.Eval(t.T)
		} else {
			r = env.Eval(t.E)
		}
	default:
		r = Res{math.NaN(), 0}
	}
	env.note(r.V)
	return r
}

func isFin(x float64) bool { return !math.IsNaN(x) && !math.IsInf(x, 0) }

func (env *Env) evalUnary(t *Term) (res Res) {
	u := env.U
	opsFinite := true
	see := func(r Res) Res {
		if !isFin(r.V) {
			opsFinite = false
		}
		return r
	}
	defer func() {
		if math.IsInf(res.V, 0) && opsFinite {
			env.Overflow = true
		}
	}()
	// numerically careful evaluation of two composite shapes (same term, better
	// conditioned arithmetic): log(1 + e) and log(1 - e)
	if t.Fn == "log" && t.A.Tag == "b" {
		in := t.A
		if in.Fn == "add" && (isOneConst(in.A) || isOneConst(in.B)) {
			e := in.B
			if isOneConst(in.B) {
				e = in.A
			}
			a := see(env.Eval(e))
			v := math.Log1p(a.V)
			return Res{v, shift(math.Log1p, a.V, a.E, v) + 2*u*math.Abs(v)}
		}
		if in.Fn == "sub" && isOneConst(in.A) {
			if in.B.Tag == "u" && in.B.Fn == "erf" {
				// log(1 - erf(z)) = log(erfc(z))
				a := see(env.Eval(in.B.A))
				f := func(z float64) float64 { return math.Log(math.Erfc(z)) }
				v := f(a.V)
				return Res{v, shift(f, a.V, a.E, v) + 4*u*math.Max(math.Abs(v), 1)}
			}
			a := see(env.Eval(in.B))
			f := func(z float64) float64 { return math.Log1p(-z) }
			v := f(a.V)
			return Res{v, shift(f, a.V, a.E, v) + 2*u*math.Abs(v)}
		}
	}
	a := see(env.Eval(t.A))
	if math.IsNaN(a.V) {
		return Res{math.NaN(), 0}
	}
	var f func(float64) float64
	c := 2.0 // accuracy of the elementary function in units of u
	mag := 0.0
	switch t.Fn {
	case "neg":
		return Res{-a.V, a.E}
	case "abs":
		return Res{math.Abs(a.V), a.E}
	case "sgn":
		if a.V == 0 || math.Abs(a.V) <= tieFactor*a.E {
			env.Ties["sgn:"+t.A.String()] = true
			return Res{float64(env.TieSide), 0}
		}
		if a.V > 0 {
			return Res{1, 0}
		}
		return Res{-1, 0}
	case "sin":
		f = math.Sin
	case "cos":
		f = math.Cos
	case "tan":
		f = math.Tan
	case "sinh":
		f = math.Sinh
	case "cosh":
		f = math.Cosh
	case "tanh":
		f = math.Tanh
	case "exp":
		f = math.Exp
	case "log":
		f = math.Log
	case "erf":
		f = math.Erf
	case "gamma":
		f = math.Gamma
		c = 8
	case "lgamma":
		f = lgammaPos
		c = 8
		mag = 1
	case "digamma":
		f = func(z float64) float64 { v, _ := Digamma(z); return v }
		_, mag = Digamma(a.V)
		c = 16
	case "trigamma":
		f = func(z float64) float64 { v, _ := Trigamma(z); return v }
		_, mag = Trigamma(a.V)
		c = 16
	default:
		return Res{math.NaN(), 0}
	}
	v := f(a.V)
	return Res{v, shift(f, a.V, a.E, v) + c*u*math.Max(math.Abs(v), mag)}
}

func (env *Env) evalBinary(t *Term) (res Res) {
	u := env.U
	opsFinite := true
	see := func(r Res) Res {
		if !isFin(r.V) {
			opsFinite = false
		}
		return r
	}
	defer func() {
		if math.IsInf(res.V, 0) && opsFinite {
			env.Overflow = true
		}
	}()
	// 1 - erf(z) = erfc(z)
	if t.Fn == "sub" && isOneConst(t.A) && t.B.Tag == "u" && t.B.Fn == "erf" {
		a := see(env.Eval(t.B.A))
		v := math.Erfc(a.V)
		return Res{v, shift(math.Erfc, a.V, a.E, v) + 4*u*math.Abs(v)}
	}
	a := see(env.Eval(t.A))
	b := see(env.Eval(t.B))
	if math.IsNaN(a.V) || math.IsNaN(b.V) {
		return Res{math.NaN(), 0}
	}
	switch t.Fn {
	case "add":
		v := a.V + b.V
		return Res{v, a.E + b.E + u*math.Abs(v)}
	case "sub":
		v := a.V - b.V
		return Res{v, a.E + b.E + u*math.Abs(v)}
	case "mul":
		v := a.V * b.V
		e := math.Abs(a.V)*b.E + math.Abs(b.V)*a.E + a.E*b.E + u*math.Abs(v)
		if (a.V == 0 && a.E == 0) || (b.V == 0 && b.E == 0) {
			if !math.IsNaN(v) {
				e = 0 // exact zero factor
			}
		}
		return Res{v, e}
	case "div":
		v := a.V / b.V
		den := math.Abs(b.V) - b.E
		if den <= 0 {
			return Res{v, math.Inf(1)}
		}
		e := (a.E+math.Abs(v)*b.E)/den + u*math.Abs(v)
		if math.IsInf(b.V, 0) && !math.IsInf(a.V, 0) {
			e = 0
		}
		return Res{v, e}
	case "pow":
		v := math.Pow(a.V, b.V)
		e := 0.0
		if a.E != 0 || b.E != 0 {
			for _, da := range []float64{-a.E, a.E} {
				for _, db := range []float64{-b.E, b.E} {
					d := math.Abs(math.Pow(a.V+da, b.V+db) - v)
					if math.IsNaN(d) {
						d = math.Inf(1)
					}
					if d > e {
						e = d
					}
				}
			}
		}
		return Res{v, e + 2*u*math.Abs(v)}
	case "gammap":
		f := func(z float64) float64 { return GammaP(a.V, z) }
		v := f(b.V)
		return Res{v, shift(f, b.V, b.E, v) + 64*u*math.Max(math.Abs(v), 1e-3)}
	case "besseli":
		f := func(z float64) float64 { return BesselI(a.V, z) }
		v := f(b.V)
		return Res{v, shift(f, b.V, b.E, v) + 64*u*math.Abs(v)}
	}
	return Res{math.NaN(), 0}
}
