module verifharness

go 1.14

require github.com/pbenner/autodiff v0.0.0

replace github.com/pbenner/autodiff => /repo
